package rules

import (
	"fmt"
	"go/token"
	"go/types"
	"math/big"
	"sort"
	"strings"

	"golang.org/x/tools/go/ssa"

	"verif/internal/core"
)

// C22 — buffered I/O counts its byte stream exactly (counter lockstep, E12).
//
// For every method of bfe_bufio.Reader / Writer every feasible path (loops
// unrolled twice) is executed symbolically over a tiny affine domain:
//
//	Reader:  consumed = Σ(bytes obtained from b.rd) + Δb.r − Δb.w      must equal ΔTotalRead
//	Writer:  accepted = Σ(bytes handed to b.wr)     + Δb.n             must equal ΔTotalWrite
//
// Branch conditions, the io.Reader/io.Writer result contracts (0 <= n <=
// len(p)) and the structural invariants 0 <= r <= w <= len(buf), 0 <= n <=
// len(buf) are collected as linear facts; a path is balanced when
// consumed − Δcounter is a rational combination of the equalities they imply.
func init() {
	Register(&Rule{
		ID: "C22", Section: "5 C22",
		Technique: "counter lockstep: per-path symbolic execution over an affine domain (go/ssa, feasible-path enumeration with phi/nilness pruning, linear facts from guards and io contracts, Gaussian elimination for equality modulo facts), modular callee summaries derived from the callees themselves (fill leaves b.r == 0), who-may-write census of the cursor and counter fields; guard/dominance rules on direct reads, feasible-path evaluation of UnreadByte in the post-direct-read state, slide-copy shape; dominating-guard + no-intervening-cursor-write rule on every consumption of the pending read error",
		Meta: core.Meta{
			Level:       "other",
			Explanation: "Decides, for every method of bfe_bufio.Reader and Writer and every return of it: on every feasible path to that return (each loop body taken at most twice) the bytes consumed — bytes obtained from the underlying reader (b.rd.Read / WriterTo.WriteTo results) plus the advance of b.r minus the growth of b.w — equal the change of TotalRead, resp. the bytes accepted — bytes handed to the underlying writer (b.wr.Write / ReaderFrom.ReadFrom results) plus the growth of b.n — equal the change of TotalWrite, as affine expressions over SSA values modulo the linear facts of the path. A private helper (unexported method, never used as a value, only called as a plain call on the caller's own receiver from methods of the same type, loop-free, at most 8 paths) that is not balanced on its own — a fragment such as `take one byte back from the counter` — carries no obligation; it is executed inline, path by path, on every path of its callers (all combinations, at most 256 per caller path, otherwise undecided). Calls to other methods of the same object use a summary derived from the callee (fields havocked; `fill` provably leaves b.r == 0; the callee's own balance is its own obligation). Also: Reader.reset / Writer.Reset zero cursor and counter together; the cursor and counter fields are written only inside bfe_bufio. Data path (three necessary conditions only): a Read that hands the caller's slice straight to b.rd happens only under b.r == b.w (established in the method or at the single call site of the private helper that does the read), records lastByte = p[n-1] and invalidates lastRuneSize; in the state such a read leaves behind (b.r == b.w, lastByte >= 0; branch conditions on the entry values of r, w, lastByte are evaluated in it) every path of UnreadByte to a nil return stores byte(lastByte) into the buffer cell the read cursor ends at; every slide of the reader's buffer (w -= r, r = 0) is preceded by an uncapped copy of buf[r:w] to buf[0:]; the pending error of the underlying reader (b.err) is delivered after the buffered bytes: every place of a Reader method that consumes it (a call of readErr, recognised as the method that clears b.err and returns what it held) or clears it (b.err = nil, as WriteTo does for io.EOF) is dominated by a branch edge that establishes b.r == b.w / !(b.r < b.w) / b.w - b.r <= 0 / b.Buffered() == 0 evaluated at that branch, or by `b.r = b.w`, with no write of b.r/b.w (directly or through another Reader method) on any path from there to the place — so a loop that drains the stream cannot stop on the error while bytes read together with it are still buffered; discharged otherwise only for a zero-length request (len(p) == 0) and, as a reviewed exception, for Peek (the bytes stay buffered). Not covered: equivalence of the delivered bytes with std bufio beyond these conditions (ReadSlice/ReadLine/Peek/ReadRune data, Writer data path), loops taken more than twice, the saturating decrements of UnreadByte/UnreadRune when TotalRead was externally reset below the unread amount (those branches are assumed away), overflow.",
			RuleText:    "obligations = each return of each method of Reader/Writer (all feasible paths to it balanced), path-enumeration completeness per method, reset rules, one census obligation per cursor/counter field, each direct read of the underlying reader, each nil return of UnreadByte, each slide, each consumption/clearing of Reader.err",
			Assumptions: []string{
				"io.Reader.Read / io.Writer.Write / copy return 0 <= n <= len(argument); WriteTo/ReadFrom return n >= 0",
				"0 <= b.r <= b.w <= len(b.buf) and 0 <= b.n <= len(b.buf) hold on entry of every method (bufio's structural invariant)",
				"package-level error variables (ErrBufferFull, io.ErrShortWrite, …) are non-nil",
				"TotalRead is at least the number of bytes being unread when UnreadByte/UnreadRune decrement it (the `if TotalRead > 0` / `>= lastRuneSize` guards only protect against an external reset)",
				"the underlying reader/writer does not call back into the same bfe_bufio object",
			},
		},
		Run: runC22,
		Mutants: []Mutant{
			{Name: "read-counter-dropped", File: "bfe_bufio/bufio.go", Old: "	b.lastRuneSize = -1\n\n	b.TotalRead += n\n\n	return n, nil", New: "	b.lastRuneSize = -1\n\n	return n, nil", Expect: "lockstep|Reader.Read:"},
			{Name: "read-direct-counter-dropped", File: "bfe_bufio/bufio.go", Old: "				b.lastRuneSize = -1\n\n				b.TotalRead += n\n", New: "				b.lastRuneSize = -1\n", Expect: "lockstep|Reader.Read:"},
			{Name: "readbyte-counter-dropped", File: "bfe_bufio/bufio.go", Old: "	b.lastByte = int(c)\n\n	b.TotalRead += 1\n", New: "	b.lastByte = int(c)\n", Expect: "lockstep|Reader.ReadByte:"},
			{Name: "readslice-fast-path-off-by-one", File: "bfe_bufio/bufio.go", Old: "		b.r += i + 1\n\n		b.TotalRead += i + 1\n", New: "		b.r += i + 1\n\n		b.TotalRead += i\n", Expect: "lockstep|Reader.ReadSlice:return#1"},
			{Name: "readslice-bufferfull-counter-wrong", File: "bfe_bufio/bufio.go", Old: "			b.TotalRead += len(b.buf)\n", New: "			b.TotalRead += len(b.buf) - 1\n", Expect: "lockstep|Reader.ReadSlice:return#4"},
			{Name: "unreadrune-counter-dropped", File: "bfe_bufio/bufio.go", Old: "	if b.TotalRead >= b.lastRuneSize {\n		b.TotalRead -= b.lastRuneSize\n	}\n", New: "", Expect: "lockstep|Reader.UnreadRune:"},
			{Name: "writebuf-guard-weakened", File: "bfe_bufio/bufio.go", Old: "	b.r += n\n\n	if n > 0 {\n		b.TotalRead += n\n	}", New: "	b.r += n\n\n	if n > 1 {\n		b.TotalRead += n\n	}", Expect: "lockstep|Reader.WriteTo:"},
			{Name: "write-error-path-counter-dropped", File: "bfe_bufio/bufio.go", Old: "	if b.err != nil {\n		b.TotalWrite += nn\n		return nn, b.err\n	}\n	n := copy(b.buf[b.n:], p)", New: "	if b.err != nil {\n		return nn, b.err\n	}\n	n := copy(b.buf[b.n:], p)", Expect: "lockstep|Writer.Write:"},
			{Name: "writebyte-counter-dropped", File: "bfe_bufio/bufio.go", Old: "	b.n++\n	b.TotalWrite++\n", New: "	b.n++\n", Expect: "lockstep|Writer.WriteByte:"},
			{Name: "readfrom-passthrough-counter-dropped", File: "bfe_bufio/bufio.go", Old: "			n, err = w.ReadFrom(r)\n			b.TotalWrite += int(n)\n", New: "			n, err = w.ReadFrom(r)\n", Expect: "lockstep|Writer.ReadFrom:return#1"},
			{Name: "writer-reset-keeps-counter", File: "bfe_bufio/bufio.go", Old: "	b.wr = w\n	b.TotalWrite = 0\n", New: "	b.wr = w\n", Expect: "Writer.Reset"},
			{Name: "fill-stops-sliding", File: "bfe_bufio/bufio.go", Old: "		copy(b.buf, b.buf[b.r:b.w])\n		b.w -= b.r\n		b.r = 0\n", New: "		copy(b.buf, b.buf[b.r:b.w])\n", Expect: "fill-summary|Reader.fill"},
			{Name: "foreign-counter-write", File: "bfe_http/request.go", Old: "	totalRead := b.TotalRead\n", New: "	b.TotalRead = 0\n	totalRead := b.TotalRead\n", Expect: "counter-writers|Reader.TotalRead"},
			{Name: "readslice-after-fill-undercount", File: "bfe_bufio/bufio.go", Old: "			b.TotalRead += n + i + 1\n", New: "			b.TotalRead += i + 1\n", Expect: "lockstep|Reader.ReadSlice:return#3"},
			{Name: "readline-cr-putback-uncounted", File: "bfe_bufio/bufio.go", Old: "			b.r--\n			if b.TotalRead > 0 {\n				b.TotalRead--\n			}\n", New: "			b.r--\n", Expect: "lockstep|Reader.ReadLine:return#1"},
			{Name: "readfrom-flush-error-uncounted", File: "bfe_bufio/bufio.go", Old: "				b.TotalWrite += int(n)\n				return n, err1\n", New: "				return n, err1\n", Expect: "lockstep|Writer.ReadFrom:return#2"},
			{Name: "unreadbyte-restore-dropped", File: "bfe_bufio/bufio.go", Old: "		b.buf[0] = byte(b.lastByte)\n", New: "", Expect: "unread-restore|Reader.UnreadByte"},
			{Name: "unreadbyte-restore-only-when-buffer-at-origin", File: "bfe_bufio/bufio.go", Old: "	if b.r == b.w && b.lastByte >= 0 {\n		b.w = 1", New: "	if b.r == b.w && b.r == 0 && b.lastByte >= 0 {\n		b.w = 1", Expect: "unread-restore|Reader.UnreadByte"},
			{Name: "unreadbyte-restores-wrong-cell", File: "bfe_bufio/bufio.go", Old: "		b.buf[0] = byte(b.lastByte)\n", New: "		b.buf[1] = byte(b.lastByte)\n", Expect: "unread-restore|Reader.UnreadByte"},
			{Name: "direct-read-forgets-lastbyte", File: "bfe_bufio/bufio.go", Old: "				b.lastByte = int(p[n-1])\n				b.lastRuneSize = -1\n", New: "				b.lastRuneSize = -1\n", Expect: "bypass-state|Reader.Read:direct#1:records-last-byte"},
			{Name: "direct-read-with-buffered-data", File: "bfe_bufio/bufio.go", Old: "	if b.w == b.r {\n		if b.err != nil {\n			return 0, b.readErr()\n		}\n		if len(p) >= len(b.buf) {", New: "	if b.w >= b.r {\n		if b.err != nil {\n			return 0, b.readErr()\n		}\n		if len(p) >= len(b.buf) {", Expect: "bypass-state|Reader.Read:direct#1:empty-buffer"},
			{Name: "fill-slide-destination-capped", File: "bfe_bufio/bufio.go", Old: "		copy(b.buf, b.buf[b.r:b.w])\n		b.w -= b.r", New: "		copy(b.buf[:b.r], b.buf[b.r:b.w])\n		b.w -= b.r", Expect: "slide|Reader.fill"},
			{Name: "writeto-stops-on-error-with-data-buffered", File: "bfe_bufio/bufio.go", Old: "	for b.fill(); b.r < b.w; b.fill() {", New: "	for b.fill(); b.r < b.w && b.err == nil; b.fill() {", Expect: "err-after-data|Reader.WriteTo:consume"},
			{Name: "read-reports-error-before-buffered-data", File: "bfe_bufio/bufio.go", Old: "	if b.w == b.r {\n		if b.err != nil {\n			return 0, b.readErr()\n		}\n		if len(p) >= len(b.buf) {", New: "	if b.err != nil {\n		return 0, b.readErr()\n	}\n	if b.w == b.r {\n		if len(p) >= len(b.buf) {", Expect: "err-after-data|Reader.Read:consume#2"},
			{Name: "readbyte-loop-also-entered-on-error", File: "bfe_bufio/bufio.go", Old: "	for b.w == b.r {\n		if b.err != nil {\n			return 0, b.readErr()\n		}\n		b.fill()\n	}\n	c = b.buf[b.r]", New: "	for b.w == b.r || b.err != nil {\n		if b.err != nil {\n			return 0, b.readErr()\n		}\n		b.fill()\n	}\n	c = b.buf[b.r]", Expect: "err-after-data|Reader.ReadByte:consume#1"},
			{Name: "readrune-error-before-buffered-rune", File: "bfe_bufio/bufio.go", Old: "	if b.r == b.w {\n		return 0, 0, b.readErr()\n	}", New: "	if b.r == b.w || b.err != nil {\n		return 0, 0, b.readErr()\n	}", Expect: "err-after-data|Reader.ReadRune:consume#1"},
			{Name: "silent-writeto-loop-with-break", File: "bfe_bufio/bufio.go", Old: "	for b.fill(); b.r < b.w; b.fill() {\n		m, err := b.writeBuf(w)", New: "	for {\n		b.fill()\n		if b.r >= b.w {\n			break\n		}\n		m, err := b.writeBuf(w)", Silent: true},
			{Name: "silent-readrune-empty-test-via-buffered", File: "bfe_bufio/bufio.go", Old: "	if b.r == b.w {\n		return 0, 0, b.readErr()\n	}", New: "	if b.Buffered() == 0 {\n		return 0, 0, b.readErr()\n	}", Silent: true},
			{Name: "silent-readbyte-error-via-helper", File: "bfe_bufio/bufio.go", Old: "func (b *Reader) ReadByte() (c byte, err error) {\n	b.lastRuneSize = -1\n	for b.w == b.r {\n		if b.err != nil {\n			return 0, b.readErr()\n		}", New: "func (b *Reader) pending() error {\n	return b.readErr()\n}\n\nfunc (b *Reader) ReadByte() (c byte, err error) {\n	b.lastRuneSize = -1\n	for b.w == b.r {\n		if b.err != nil {\n			return 0, b.pending()\n		}", Silent: true},
			{Name: "helper-consumes-error-called-with-data-buffered", File: "bfe_bufio/bufio.go", Old: "func (b *Reader) ReadByte() (c byte, err error) {\n	b.lastRuneSize = -1\n	for b.w == b.r {\n		if b.err != nil {\n			return 0, b.readErr()\n		}", New: "func (b *Reader) pending() error {\n	return b.readErr()\n}\n\nfunc (b *Reader) ReadByte() (c byte, err error) {\n	b.lastRuneSize = -1\n	if b.err != nil {\n		return 0, b.pending()\n	}\n	for b.w == b.r {\n		if b.err != nil {\n			return 0, b.pending()\n		}", Expect: "err-after-data|Reader.pending:consume#1"},
			{Name: "silent-unreadbyte-restore-reordered", File: "bfe_bufio/bufio.go", Old: "		b.w = 1\n		b.r = 0\n		b.buf[0] = byte(b.lastByte)\n		b.lastByte = -1\n", New: "		last := byte(b.lastByte)\n		b.r = 0\n		b.w = 1\n		b.buf[b.r] = last\n		b.lastByte = -1\n", Silent: true},
			{Name: "silent-readslice-counter-first", File: "bfe_bufio/bufio.go", Old: "			b.r = n + i + 1\n\n			b.TotalRead += n + i + 1\n", New: "			consumed := n + i + 1\n			b.TotalRead += consumed\n			b.r = consumed\n", Silent: true},
			{Name: "silent-uncount-helper", File: "bfe_bufio/bufio.go", Old: "		b.buf[0] = byte(b.lastByte)\n		b.lastByte = -1\n\n		if b.TotalRead > 0 {\n			b.TotalRead -= 1\n		}\n\n		return nil\n	}\n	if b.r <= 0 {\n		return ErrInvalidUnreadByte\n	}\n	b.r--\n	b.lastByte = -1\n\n	if b.TotalRead > 0 {\n		b.TotalRead -= 1\n	}\n\n	return nil\n}\n", New: "		b.buf[0] = byte(b.lastByte)\n		b.lastByte = -1\n\n		b.giveBackOne()\n\n		return nil\n	}\n	if b.r <= 0 {\n		return ErrInvalidUnreadByte\n	}\n	b.r--\n	b.lastByte = -1\n\n	b.giveBackOne()\n\n	return nil\n}\n\nfunc (b *Reader) giveBackOne() {\n	if b.TotalRead > 0 {\n		b.TotalRead--\n	}\n}\n", Silent: true},
			{Name: "uncount-helper-called-twice", File: "bfe_bufio/bufio.go", Old: "		b.buf[0] = byte(b.lastByte)\n		b.lastByte = -1\n\n		if b.TotalRead > 0 {\n			b.TotalRead -= 1\n		}\n\n		return nil\n	}\n	if b.r <= 0 {\n		return ErrInvalidUnreadByte\n	}\n	b.r--\n	b.lastByte = -1\n\n	if b.TotalRead > 0 {\n		b.TotalRead -= 1\n	}\n\n	return nil\n}\n", New: "		b.buf[0] = byte(b.lastByte)\n		b.lastByte = -1\n\n		b.giveBackOne()\n\n		return nil\n	}\n	if b.r <= 0 {\n		return ErrInvalidUnreadByte\n	}\n	b.r--\n	b.lastByte = -1\n\n	b.giveBackOne()\n	b.giveBackOne()\n\n	return nil\n}\n\nfunc (b *Reader) giveBackOne() {\n	if b.TotalRead > 0 {\n		b.TotalRead--\n	}\n}\n", Expect: "lockstep|Reader.UnreadByte:"},
			{Name: "silent-read-direct-helper", File: "bfe_bufio/bufio.go", Old: "func (b *Reader) Read(p []byte) (n int, err error) {\n	n = len(p)\n	if n == 0 {\n		return 0, b.readErr()\n	}\n	if b.w == b.r {\n		if b.err != nil {\n			return 0, b.readErr()\n		}\n		if len(p) >= len(b.buf) {\n			// Large read, empty buffer.\n			// Read directly into p to avoid copy.\n			n, b.err = b.rd.Read(p)\n			if n > 0 {\n				b.lastByte = int(p[n-1])\n				b.lastRuneSize = -1\n\n				b.TotalRead += n\n			}\n\n			return n, b.readErr()\n		}\n", New: "func (b *Reader) passThrough(dst []byte) (int, error) {\n	var got int\n	got, b.err = b.rd.Read(dst)\n	if got > 0 {\n		b.lastByte = int(dst[got-1])\n		b.lastRuneSize = -1\n\n		b.TotalRead += got\n	}\n	return got, b.readErr()\n}\n\nfunc (b *Reader) Read(p []byte) (n int, err error) {\n	n = len(p)\n	if n == 0 {\n		return 0, b.readErr()\n	}\n	if b.w == b.r {\n		if b.err != nil {\n			return 0, b.readErr()\n		}\n		if len(p) >= len(b.buf) {\n			return b.passThrough(p)\n		}\n", Silent: true},
			{Name: "silent-reorder-and-rename", File: "bfe_bufio/bufio.go", Old: "	c = b.buf[b.r]\n	b.r++\n	b.lastByte = int(c)\n\n	b.TotalRead += 1\n", New: "	b.TotalRead++\n	next := b.buf[b.r]\n	c = next\n	b.lastByte = int(c)\n	b.r = b.r + 1\n", Silent: true},
		},
	})
}

const c22pkg = "bfe_bufio"

// ---------------------------------------------------------------- affine values

type c22aff struct {
	t map[string]int64
	k int64
}

func c22const(k int64) c22aff { return c22aff{k: k} }
func c22sym(s string) c22aff  { return c22aff{t: map[string]int64{s: 1}} }

func (a c22aff) comb(b c22aff, fa, fb int64) c22aff {
	out := c22aff{t: map[string]int64{}, k: fa*a.k + fb*b.k}
	for s, v := range a.t {
		out.t[s] += fa * v
	}
	for s, v := range b.t {
		out.t[s] += fb * v
	}
	for s, v := range out.t {
		if v == 0 {
			delete(out.t, s)
		}
	}
	return out
}
func (a c22aff) add(b c22aff) c22aff  { return a.comb(b, 1, 1) }
func (a c22aff) sub(b c22aff) c22aff  { return a.comb(b, 1, -1) }
func (a c22aff) neg() c22aff          { return c22aff{}.comb(a, 0, -1) }
func (a c22aff) addK(k int64) c22aff  { return a.add(c22const(k)) }
func (a c22aff) scale(n int64) c22aff { return a.comb(c22aff{}, n, 0) }
func (a c22aff) isConst() bool        { return len(a.t) == 0 }
func (a c22aff) String() string {
	var keys []string
	for s := range a.t {
		keys = append(keys, s)
	}
	sort.Strings(keys)
	var parts []string
	for _, s := range keys {
		switch v := a.t[s]; v {
		case 1:
			parts = append(parts, "+"+s)
		case -1:
			parts = append(parts, "-"+s)
		default:
			parts = append(parts, fmt.Sprintf("%+d*%s", v, s))
		}
	}
	if a.k != 0 || len(parts) == 0 {
		parts = append(parts, fmt.Sprintf("%+d", a.k))
	}
	return strings.TrimPrefix(strings.Join(parts, " "), "+")
}

// c22lin is a set of linear equalities (Gaussian-eliminated pivot rows).
type c22lin struct {
	cols   map[string]int
	pivots [][]*big.Rat // each row has a leading 1 at its pivot column
	pcol   []int
}

func (l *c22lin) col(s string) int {
	if l.cols == nil {
		l.cols = map[string]int{"": 0} // column 0 = constant
	}
	if i, ok := l.cols[s]; ok {
		return i
	}
	i := len(l.cols)
	l.cols[s] = i
	return i
}

func (l *c22lin) vec(a c22aff) []*big.Rat {
	for s := range a.t {
		l.col(s)
	}
	l.col("")
	v := make([]*big.Rat, len(l.cols))
	for i := range v {
		v[i] = new(big.Rat)
	}
	v[0].SetInt64(a.k)
	for s, c := range a.t {
		v[l.cols[s]].SetInt64(c)
	}
	return v
}

func c22get(v []*big.Rat, i int) *big.Rat {
	if i < len(v) {
		return v[i]
	}
	return new(big.Rat)
}

// reduce subtracts pivot rows; the remainder has zeros in all pivot columns.
func (l *c22lin) reduce(v []*big.Rat) []*big.Rat {
	for len(v) < len(l.cols) {
		v = append(v, new(big.Rat))
	}
	for pi, row := range l.pivots {
		c := l.pcol[pi]
		f := c22get(v, c)
		if f.Sign() == 0 {
			continue
		}
		f = new(big.Rat).Set(f)
		for j := range v {
			v[j] = new(big.Rat).Sub(v[j], new(big.Rat).Mul(f, c22get(row, j)))
		}
	}
	return v
}

// remainder classifies a reduced vector: zero, a pure constant (sign), or other.
func c22class(v []*big.Rat) (zero bool, constSign int, pure bool) {
	pure = true
	for i := 1; i < len(v); i++ {
		if v[i].Sign() != 0 {
			pure = false
		}
	}
	if !pure {
		return false, 0, false
	}
	return v[0].Sign() == 0, v[0].Sign(), true
}

// addEq adds e == 0; returns false when it contradicts the set (constant != 0).
func (l *c22lin) addEq(e c22aff) bool {
	v := l.reduce(l.vec(e))
	zero, _, pure := c22class(v)
	if zero {
		return true
	}
	if pure {
		return false
	}
	// pivot on the last non-constant non-zero column (prefer symbols over the constant)
	pc := -1
	for i := len(v) - 1; i >= 1; i-- {
		if v[i].Sign() != 0 {
			pc = i
			break
		}
	}
	inv := new(big.Rat).Inv(v[pc])
	for j := range v {
		v[j] = new(big.Rat).Mul(v[j], inv)
	}
	// eliminate the new pivot from existing rows
	for pi, row := range l.pivots {
		for len(row) < len(v) {
			row = append(row, new(big.Rat))
		}
		f := new(big.Rat).Set(row[pc])
		if f.Sign() != 0 {
			for j := range row {
				row[j] = new(big.Rat).Sub(row[j], new(big.Rat).Mul(f, v[j]))
			}
		}
		l.pivots[pi] = row
	}
	l.pivots = append(l.pivots, v)
	l.pcol = append(l.pcol, pc)
	return true
}

// ---------------------------------------------------------------- analysis context

type c22kind struct {
	name    string       // "Reader" / "Writer"
	typ     *types.Named // the struct
	fields  map[*types.Var]bool
	plus    map[*types.Var]bool // fields whose growth adds to the byte count (r, n)
	minus   map[*types.Var]bool // fields whose growth subtracts (w)
	counter *types.Var
	under   *types.Var // rd / wr
	buf     *types.Var
	events  map[string]bool // methods of the underlying object whose result #0 counts
}

type c22summary struct {
	paths     int
	complete  bool
	resets    bool                // stores a whole struct into the receiver
	finalZero map[*types.Var]bool // field is provably 0 at every return
	retBad    map[*ssa.Return]string
	retSeen   map[*ssa.Return]int
	single    *core.Path // the only path, when there is exactly one (inlinable)
	busy      bool
	// a private helper that is not balanced on its own (a fragment of its
	// callers, e.g. "take one byte back from the counter"): it carries no
	// obligation of its own and is executed inline, path by path, in every caller
	inlineMulti bool
	allPaths    []*core.Path
}

type c22ctx struct {
	c     *core.Ctx
	kinds []*c22kind
	sums  map[*ssa.Function]*c22summary
}

func (x *c22ctx) kindOf(fn *ssa.Function) *c22kind {
	if fn == nil || fn.Signature.Recv() == nil || len(fn.Params) == 0 {
		return nil
	}
	t := fn.Signature.Recv().Type()
	if p, ok := t.(*types.Pointer); ok {
		t = p.Elem()
	} else {
		return nil
	}
	for _, k := range x.kinds {
		if types.Identical(t, k.typ) {
			return k
		}
	}
	return nil
}

func c22isInt(t types.Type) bool {
	b, ok := t.Underlying().(*types.Basic)
	return ok && b.Info()&types.IsInteger != 0
}

// ---------------------------------------------------------------- symbolic execution of one path

type c22exec struct {
	x      *c22ctx
	kind   *c22kind
	fn     *ssa.Function
	recv   ssa.Value
	prefix string
	st     *c22state
	env    map[ssa.Value]c22aff
	lens   map[ssa.Value]c22aff
	refs   map[ssa.Value]string
	epoch  map[ssa.Value]int
	ret    []ssa.Value // results of the executed return (for inlining)

	tupleInt map[string]c22aff
	tupleRef map[string]string
	failed   string
}

// c22state is shared between a method and the callees inlined into it.
type c22state struct {
	fields     map[*types.Var]c22aff
	bytes, ctr c22aff // accumulated byte count and counter change
	ge0        []c22aff
	eqs        []c22aff
	nilness    map[string]bool
	infeasible bool
	saturated  bool
	fresh      int
	lastDelta  c22aff // last negative contribution to bytes (for the saturation guard)
	depth      int
	// which path of the k-th multi-path helper call is taken (see c22summary.inlineMulti)
	choices []int
	arity   []int
	cpos    int
}

func (e *c22exec) newSym(hint string) c22aff {
	e.st.fresh++
	return c22sym(fmt.Sprintf("%s%s#%d", e.prefix, hint, e.st.fresh))
}

func (e *c22exec) havocFields() {
	k := e.kind
	names := map[*types.Var]c22aff{}
	for f := range k.fields {
		names[f] = e.newSym(f.Name())
		e.st.fields[f] = names[f]
	}
	e.invariants()
}

// invariants adds the structural invariants for the current field values.
func (e *c22exec) invariants() {
	k, st := e.kind, e.st
	L := c22sym("len(buf)")
	st.ge0 = append(st.ge0, L)
	switch k.name {
	case "Reader":
		var r, w c22aff
		for f := range k.plus {
			r = st.fields[f]
		}
		for f := range k.minus {
			w = st.fields[f]
		}
		st.ge0 = append(st.ge0, r, w.sub(r), L.sub(w))
	case "Writer":
		for f := range k.plus {
			n := st.fields[f]
			st.ge0 = append(st.ge0, n, L.sub(n))
		}
	}
}

func (e *c22exec) lenOf(v ssa.Value) c22aff {
	for {
		switch y := v.(type) {
		case *ssa.ChangeType:
			v = y.X
			continue
		case *ssa.Convert:
			if _, isSlice := y.X.Type().Underlying().(*types.Slice); isSlice {
				v = y.X
				continue
			}
			if b, isB := y.X.Type().Underlying().(*types.Basic); isB && b.Info()&types.IsString != 0 {
				v = y.X
				continue
			}
		}
		break
	}
	if a, ok := e.lens[v]; ok {
		return a
	}
	var a c22aff
	switch y := v.(type) {
	case *ssa.Parameter:
		a = c22sym(e.prefix + "len(" + y.Name() + ")")
	case *ssa.Const:
		if y.Value != nil && y.Value.Kind().String() == "String" {
			a = c22const(int64(len(y.Value.ExactString()) - 2))
		} else {
			a = c22const(0)
		}
	default:
		if f, base := uuFieldLoadRaw(v); f != nil && f == e.kind.buf && base == e.recv {
			a = c22sym("len(buf)")
		} else {
			a = e.newSym("len")
			e.st.ge0 = append(e.st.ge0, a)
		}
	}
	e.lens[v] = a
	return a
}

// uuFieldLoadRaw: v is directly a load of a struct field (no resolving).
func uuFieldLoadRaw(v ssa.Value) (*types.Var, ssa.Value) {
	if u, ok := v.(*ssa.UnOp); ok && u.Op == token.MUL {
		if fa, ok := u.X.(*ssa.FieldAddr); ok {
			return core.FieldObj(fa.X, fa.Field), fa.X
		}
	}
	return nil, nil
}

func (e *c22exec) eval(v ssa.Value) c22aff {
	switch y := v.(type) {
	case *ssa.Const:
		if n, ok := uuConstInt(y); ok {
			return c22const(n)
		}
	case *ssa.Convert:
		if c22isInt(y.X.Type()) && c22isInt(y.Type()) {
			return e.eval(y.X)
		}
	case *ssa.ChangeType:
		return e.eval(y.X)
	}
	if a, ok := e.env[v]; ok {
		return a
	}
	var a c22aff
	if prm, ok := v.(*ssa.Parameter); ok {
		a = c22sym(e.prefix + prm.Name())
	} else {
		a = e.newSym(v.Name())
	}
	e.env[v] = a
	return a
}

func (e *c22exec) ref(v ssa.Value) string {
	for {
		switch y := v.(type) {
		case *ssa.MakeInterface:
			if _, isPtr := y.X.Type().Underlying().(*types.Pointer); !isPtr {
				return "nonnil"
			}
			v = y.X
			continue
		case *ssa.ChangeInterface:
			v = y.X
			continue
		case *ssa.ChangeType:
			v = y.X
			continue
		}
		break
	}
	if k, ok := v.(*ssa.Const); ok && k.Value == nil {
		return "nil"
	}
	if u, ok := v.(*ssa.UnOp); ok && u.Op == token.MUL {
		if g, ok := u.X.(*ssa.Global); ok {
			return "nonnil:" + g.Name()
		}
	}
	if s, ok := e.refs[v]; ok {
		return s
	}
	var s string
	if prm, ok := v.(*ssa.Parameter); ok {
		s = e.prefix + "p:" + prm.Name()
	} else {
		e.st.fresh++
		s = fmt.Sprintf("%s%s@%d", e.prefix, v.Name(), e.st.fresh)
	}
	e.refs[v] = s
	return s
}

func (e *c22exec) assumeNil(v ssa.Value, isNil bool) {
	s := e.ref(v)
	switch {
	case s == "nil":
		if !isNil {
			e.st.infeasible = true
		}
	case strings.HasPrefix(s, "nonnil"):
		if isNil {
			e.st.infeasible = true
		}
	default:
		if old, ok := e.st.nilness[s]; ok && old != isNil {
			e.st.infeasible = true
		}
		e.st.nilness[s] = isNil
	}
}

// branch records the facts of taking the edge (cond == taken).
func (e *c22exec) branch(cond ssa.Value, taken bool) {
	for {
		u, ok := cond.(*ssa.UnOp)
		if !ok || u.Op != token.NOT {
			break
		}
		cond, taken = u.X, !taken
	}
	b, ok := cond.(*ssa.BinOp)
	if !ok {
		return
	}
	op := b.Op
	if !taken {
		op = uuNegate(op)
	}
	if op == token.ILLEGAL {
		return
	}
	if uuIsNil(b.X) || uuIsNil(b.Y) {
		other := b.X
		if uuIsNil(b.X) {
			other = b.Y
		}
		switch op {
		case token.EQL:
			e.assumeNil(other, true)
		case token.NEQ:
			e.assumeNil(other, false)
		}
		return
	}
	if !c22isInt(b.X.Type()) || !c22isInt(b.Y.Type()) {
		return
	}
	// saturation guards on the counter: `counter > 0`, `counter >= amount`
	if f, base := uuFieldLoadRaw(b.X); f != nil && f == e.kind.counter && base == e.recv {
		orig := b.Op
		y := e.eval(b.Y)
		isSat := (orig == token.GTR && y.isConst() && y.k == 0) || (orig == token.GEQ && y.isConst() && y.k == 1) ||
			(orig == token.GEQ && e.st.lastDelta.t != nil && y.sub(e.st.lastDelta).isConst() && y.sub(e.st.lastDelta).k == 0)
		if isSat && !taken {
			e.st.saturated = true
		}
		if isSat {
			return
		}
	}
	xa, ya := e.eval(b.X), e.eval(b.Y)
	switch op {
	case token.EQL:
		e.st.eqs = append(e.st.eqs, xa.sub(ya))
	case token.GEQ:
		e.st.ge0 = append(e.st.ge0, xa.sub(ya))
	case token.GTR:
		e.st.ge0 = append(e.st.ge0, xa.sub(ya).addK(-1))
	case token.LEQ:
		e.st.ge0 = append(e.st.ge0, ya.sub(xa))
	case token.LSS:
		e.st.ge0 = append(e.st.ge0, ya.sub(xa).addK(-1))
	}
}

// underlying: v is (derived by type assertion from) a load of the rd / wr field of the receiver.
func (e *c22exec) underlying(v ssa.Value) bool {
	for i := 0; i < 6; i++ {
		switch y := v.(type) {
		case *ssa.Extract:
			v = y.Tuple
		case *ssa.TypeAssert:
			v = y.X
		case *ssa.ChangeInterface:
			v = y.X
		case *ssa.MakeInterface:
			v = y.X
		default:
			f, base := uuFieldLoadRaw(v)
			return f != nil && f == e.kind.under && base == e.recv
		}
	}
	return false
}

func (e *c22exec) setField(f *types.Var, val c22aff) {
	st, k := e.st, e.kind
	old := st.fields[f]
	d := val.sub(old)
	switch {
	case k.plus[f]:
		st.bytes = st.bytes.add(d)
		st.lastDelta = d.neg()
	case k.minus[f]:
		st.bytes = st.bytes.sub(d)
	case f == k.counter:
		st.ctr = st.ctr.add(d)
	}
	st.fields[f] = val
}

// run executes the blocks of path p; returns false when the path is infeasible.
func (e *c22exec) run(p *core.Path) bool {
	for bi, blk := range p.Blocks {
		var pred *ssa.BasicBlock
		if bi > 0 {
			pred = p.Blocks[bi-1]
			if ifi, ok := pred.Instrs[len(pred.Instrs)-1].(*ssa.If); ok && pred.Succs[0] != pred.Succs[1] {
				e.branch(ifi.Cond, pred.Succs[0] == blk)
				if e.st.infeasible {
					return false
				}
			}
		}
		// phis are evaluated simultaneously
		if pred != nil {
			pi := -1
			for i, q := range blk.Preds {
				if q == pred {
					pi = i
				}
			}
			type upd struct {
				phi *ssa.Phi
				a   c22aff
				l   c22aff
				r   string
			}
			var ups []upd
			for _, in := range blk.Instrs {
				phi, ok := in.(*ssa.Phi)
				if !ok {
					break
				}
				if pi < 0 {
					continue
				}
				u := upd{phi: phi}
				edge := phi.Edges[pi]
				switch {
				case c22isInt(phi.Type()):
					u.a = e.eval(edge)
				case c22sliceLike(phi.Type()):
					u.l = e.lenOf(edge)
				default:
					u.r = e.ref(edge)
				}
				ups = append(ups, u)
			}
			for _, u := range ups {
				switch {
				case c22isInt(u.phi.Type()):
					e.env[u.phi] = u.a
				case c22sliceLike(u.phi.Type()):
					e.lens[u.phi] = u.l
				default:
					e.refs[u.phi] = u.r
				}
			}
		}
		for _, in := range blk.Instrs {
			if !e.step(in) {
				return false
			}
		}
	}
	return !e.st.infeasible
}

func c22sliceLike(t types.Type) bool {
	switch u := t.Underlying().(type) {
	case *types.Slice:
		return true
	case *types.Basic:
		return u.Info()&types.IsString != 0
	}
	return false
}

func (e *c22exec) step(in ssa.Instruction) bool {
	st, k := e.st, e.kind
	switch v := in.(type) {
	case *ssa.Phi:
		// done at block entry
	case *ssa.UnOp:
		if v.Op == token.MUL {
			if f, base := uuFieldLoadRaw(v); f != nil && base == e.recv && k.fields[f] {
				e.env[v] = st.fields[f]
				return true
			}
			delete(e.env, v)
			delete(e.refs, v)
			delete(e.lens, v)
		} else if v.Op == token.SUB && c22isInt(v.Type()) {
			e.env[v] = e.eval(v.X).neg()
		}
	case *ssa.BinOp:
		if !c22isInt(v.Type()) {
			return true
		}
		switch v.Op {
		case token.ADD:
			e.env[v] = e.eval(v.X).add(e.eval(v.Y))
		case token.SUB:
			e.env[v] = e.eval(v.X).sub(e.eval(v.Y))
		case token.MUL:
			xa, ya := e.eval(v.X), e.eval(v.Y)
			switch {
			case xa.isConst():
				e.env[v] = ya.scale(xa.k)
			case ya.isConst():
				e.env[v] = xa.scale(ya.k)
			default:
				e.env[v] = e.newSym(v.Name())
			}
		default:
			e.env[v] = e.newSym(v.Name())
		}
	case *ssa.Convert:
		if c22isInt(v.Type()) && c22isInt(v.X.Type()) {
			e.env[v] = e.eval(v.X)
		} else {
			delete(e.env, v)
		}
	case *ssa.Slice:
		var lo, hi c22aff
		if v.Low != nil {
			lo = e.eval(v.Low)
		}
		if v.High != nil {
			hi = e.eval(v.High)
		} else {
			hi = e.lenOf(v.X)
		}
		e.lens[v] = hi.sub(lo)
	case *ssa.Store:
		if v.Addr == e.recv {
			return e.fail("whole-struct store into the receiver on an analysed path")
		}
		if f, base := uuFieldAddr(v.Addr); f != nil && base == e.recv && k.fields[f] {
			e.setField(f, e.eval(v.Val))
		}
	case *ssa.Extract:
		call, ok := v.Tuple.(*ssa.Call)
		if !ok {
			delete(e.env, v)
			return true
		}
		key := fmt.Sprintf("%p#%d", call, v.Index)
		switch {
		case c22isInt(v.Type()):
			if a, ok := e.tupleInt[key]; ok {
				e.env[v] = a
			} else {
				e.env[v] = e.newSym(v.Name())
			}
		case c22sliceLike(v.Type()):
			delete(e.lens, v)
		default:
			if r, ok := e.tupleRef[key]; ok {
				e.refs[v] = r
			} else {
				delete(e.refs, v)
			}
		}
	case *ssa.Call:
		return e.call(v)
	case *ssa.Return:
		e.ret = v.Results
	case *ssa.Defer, *ssa.Go:
		return e.fail("defer/go in a buffered I/O method: not modelled")
	}
	return true
}

func (e *c22exec) fail(msg string) bool {
	e.failed = msg
	return false
}

func (e *c22exec) call(v *ssa.Call) bool {
	st, k := e.st, e.kind
	cc := &v.Call
	// fresh result symbols
	e.tupleInt, e.tupleRef = c22ensure(e.tupleInt), c22ensureS(e.tupleRef)
	delete(e.env, v)
	delete(e.refs, v)
	delete(e.lens, v)
	res := v.Type()
	setRes := func(i int, a c22aff) {
		if tup, ok := res.(*types.Tuple); ok {
			_ = tup
			e.tupleInt[fmt.Sprintf("%p#%d", v, i)] = a
		} else if i == 0 {
			e.env[v] = a
		}
	}
	clearTuple := func() {
		if tup, ok := res.(*types.Tuple); ok {
			for i := 0; i < tup.Len(); i++ {
				key := fmt.Sprintf("%p#%d", v, i)
				delete(e.tupleInt, key)
				st.fresh++
				e.tupleRef[key] = fmt.Sprintf("%s%s.%d@%d", e.prefix, v.Name(), i, st.fresh)
			}
		}
	}
	clearTuple()
	if b, ok := cc.Value.(*ssa.Builtin); ok {
		switch b.Name() {
		case "len":
			e.env[v] = e.lenOf(cc.Args[0])
		case "copy":
			n := e.newSym("copy")
			st.ge0 = append(st.ge0, n, e.lenOf(cc.Args[0]).sub(n), e.lenOf(cc.Args[1]).sub(n))
			e.env[v] = n
		}
		return true
	}
	if cc.IsInvoke() {
		name := cc.Method.Name()
		switch name {
		case "Read", "Write":
			if len(cc.Args) == 1 && c22sliceLike(cc.Args[0].Type()) {
				n := e.newSym(name)
				st.ge0 = append(st.ge0, n, e.lenOf(cc.Args[0]).sub(n))
				setRes(0, n)
				if e.underlying(cc.Value) && k.events[name] {
					st.bytes = st.bytes.add(n)
				}
			}
		case "WriteTo", "ReadFrom":
			n := e.newSym(name)
			st.ge0 = append(st.ge0, n)
			setRes(0, n)
			if e.underlying(cc.Value) && k.events[name] {
				st.bytes = st.bytes.add(n)
			}
		}
		return true
	}
	sc := cc.StaticCallee()
	if sc == nil || len(cc.Args) == 0 || cc.Args[0] != e.recv || e.x.kindOf(sc) != k {
		// unrelated call: results opaque. A call that receives the receiver as
		// a non-receiver argument could modify it: not present in this package.
		for i, a := range cc.Args {
			if i > 0 && a == e.recv {
				return e.fail("the receiver escapes to " + core.CalleeKey(cc))
			}
		}
		return true
	}
	// method of the same object
	sum := e.x.summary(sc)
	if sum == nil || sum.busy {
		return e.fail("recursive call of " + uuShort(sc))
	}
	if sum.resets {
		e.havocFields()
		return true
	}
	inline := func(path *core.Path) bool {
		sub := &c22exec{x: e.x, kind: k, fn: sc, recv: sc.Params[0], st: st, env: map[ssa.Value]c22aff{}, lens: map[ssa.Value]c22aff{}, refs: map[ssa.Value]string{}, epoch: map[ssa.Value]int{}}
		st.fresh++
		sub.prefix = fmt.Sprintf("%s%s%d.", e.prefix, sc.Name(), st.fresh)
		for i, prm := range sc.Params {
			if i == 0 {
				continue
			}
			switch {
			case c22isInt(prm.Type()):
				sub.env[prm] = e.eval(cc.Args[i])
			case c22sliceLike(prm.Type()):
				sub.lens[prm] = e.lenOf(cc.Args[i])
			default:
				sub.refs[prm] = e.ref(cc.Args[i])
			}
		}
		st.depth++
		ok := sub.run(path)
		st.depth--
		if !ok {
			if sub.failed != "" {
				return e.fail(sub.failed)
			}
			return false
		}
		for i, r := range sub.ret {
			key := fmt.Sprintf("%p#%d", v, i)
			switch {
			case c22isInt(r.Type()):
				setRes(i, sub.eval(r))
			case c22sliceLike(r.Type()):
			default:
				if _, isTuple := res.(*types.Tuple); isTuple {
					e.tupleRef[key] = sub.ref(r)
				} else {
					e.refs[v] = sub.ref(r)
				}
			}
		}
		return true
	}
	if sum.single != nil && st.depth < 4 {
		return inline(sum.single)
	}
	if sum.inlineMulti && st.depth < 4 && len(sum.allPaths) > 0 {
		kpos := st.cpos
		st.cpos++
		pick := 0
		if kpos < len(st.choices) {
			pick = st.choices[kpos]
		}
		for len(st.arity) <= kpos {
			st.arity = append(st.arity, 1)
		}
		st.arity[kpos] = len(sum.allPaths)
		if pick >= len(sum.allPaths) {
			return false
		}
		path := sum.allPaths[pick]
		if _, isRet := path.Last().(*ssa.Return); !isRet {
			return false // the helper panics on this path: no obligation
		}
		return inline(path)
	}
	// summary: fields havocked, provable final zeros kept
	e.havocFields()
	for f := range sum.finalZero {
		st.fields[f] = c22const(0)
	}
	if len(sum.finalZero) > 0 {
		e.invariants()
	}
	return true
}

func c22ensure(m map[string]c22aff) map[string]c22aff {
	if m == nil {
		return map[string]c22aff{}
	}
	return m
}
func c22ensureS(m map[string]string) map[string]string {
	if m == nil {
		return map[string]string{}
	}
	return m
}

// closure derives equalities from pairs of opposite inequalities and detects
// contradictions. Returns the equality set, or nil when the path is infeasible.
func (st *c22state) closure() *c22lin {
	lin := &c22lin{}
	for _, e := range st.eqs {
		if !lin.addEq(e) {
			return nil
		}
	}
	for round := 0; round < 4; round++ {
		changed := false
		for i := 0; i < len(st.ge0); i++ {
			vi := lin.reduce(lin.vec(st.ge0[i]))
			if _, sign, pure := c22class(vi); pure && sign < 0 {
				return nil
			}
			for j := i + 1; j < len(st.ge0); j++ {
				sum := st.ge0[i].add(st.ge0[j])
				v := lin.reduce(lin.vec(sum))
				zero, sign, pure := c22class(v)
				if pure && sign < 0 {
					return nil
				}
				if zero {
					if z, _, _ := c22class(vi); !z {
						if !lin.addEq(st.ge0[i]) {
							return nil
						}
						changed = true
						vi = lin.reduce(lin.vec(st.ge0[i]))
					}
				}
			}
		}
		if !changed {
			break
		}
	}
	return lin
}

// ---------------------------------------------------------------- per-function analysis

func (x *c22ctx) summary(fn *ssa.Function) *c22summary {
	if s, ok := x.sums[fn]; ok {
		return s
	}
	k := x.kindOf(fn)
	if k == nil || fn.Blocks == nil {
		return nil
	}
	s := &c22summary{busy: true, finalZero: map[*types.Var]bool{}, retBad: map[*ssa.Return]string{}, retSeen: map[*ssa.Return]int{}}
	x.sums[fn] = s
	// whole-struct store?
	core.Instrs(fn, func(in ssa.Instruction) {
		st, ok := in.(*ssa.Store)
		if !ok || len(fn.Params) == 0 {
			return
		}
		if st.Addr == ssa.Value(fn.Params[0]) {
			s.resets = true
		}
		// a constant stored into the counter (not counter ± delta) is a reset, too
		if f, base := uuFieldAddr(st.Addr); f == k.counter && base == ssa.Value(fn.Params[0]) {
			if _, isK := st.Val.(*ssa.Const); isK {
				s.resets = true
			}
		}
	})
	if s.resets {
		s.busy = false
		s.complete = true
		return s
	}
	var paths []*core.Path
	s.complete = core.EnumPaths(fn, 2, 6000, func(p *core.Path) { paths = append(paths, p) })
	s.paths = len(paths)
	if len(paths) == 1 {
		if _, isRet := paths[0].Last().(*ssa.Return); isRet {
			s.single = paths[0]
		}
	}
	zeroCand := map[*types.Var]bool{}
	for f := range k.fields {
		zeroCand[f] = true
	}
	feasible := 0
	for _, p := range paths {
		ret, isRet := p.Last().(*ssa.Return)
		if !isRet {
			continue // panic exits carry no obligation
		}
		// one run per combination of paths through the multi-path helpers called on p
		vectors := [][]int{nil}
		runs := 0
		for len(vectors) > 0 {
			vec := vectors[len(vectors)-1]
			vectors = vectors[:len(vectors)-1]
			runs++
			if runs > 256 {
				s.retBad[ret] = "too many combinations of paths through private helpers on the path [" + c22pathSig(p) + "]: undecided"
				s.retSeen[ret]++
				break
			}
			st := &c22state{fields: map[*types.Var]c22aff{}, nilness: map[string]bool{}, choices: vec}
			e := &c22exec{x: x, kind: k, fn: fn, recv: fn.Params[0], st: st, env: map[ssa.Value]c22aff{}, lens: map[ssa.Value]c22aff{}, refs: map[ssa.Value]string{}, epoch: map[ssa.Value]int{}}
			for f := range k.fields {
				st.fields[f] = c22sym(f.Name() + "₀")
			}
			e.invariants()
			ok := e.run(p)
			for kpos := len(vec); kpos < len(st.arity); kpos++ {
				for j := 1; j < st.arity[kpos]; j++ {
					nv := append([]int(nil), vec...)
					for len(nv) < kpos {
						nv = append(nv, 0)
					}
					vectors = append(vectors, append(nv, j))
				}
			}
			if !ok {
				if e.failed != "" {
					s.retBad[ret] = e.failed
					s.retSeen[ret]++
				}
				continue
			}
			if st.saturated {
				continue
			}
			lin := st.closure()
			if lin == nil {
				continue // contradictory facts: infeasible
			}
			feasible++
			s.retSeen[ret]++
			d := st.bytes.sub(st.ctr)
			if zero, _, _ := c22class(lin.reduce(lin.vec(d))); !zero {
				if _, had := s.retBad[ret]; !had {
					s.retBad[ret] = fmt.Sprintf("bytes = %s but Δ%s = %s (difference %s) on the path [%s]", st.bytes, k.counter.Name(), st.ctr, d, c22pathSig(p))
				}
			}
			for f := range zeroCand {
				if zero, _, _ := c22class(lin.reduce(lin.vec(st.fields[f]))); !zero {
					delete(zeroCand, f)
				}
			}
		}
	}
	if feasible > 0 && s.complete {
		for f := range zeroCand {
			if f != k.counter {
				s.finalZero[f] = true
			}
		}
	}
	s.busy = false
	if len(s.retBad) > 0 && s.complete && len(paths) <= 8 && len(core.Loops(fn)) == 0 && x.privateHelper(fn, k) {
		s.inlineMulti, s.allPaths = true, paths
	}
	return s
}

// privateHelper: fn is an unexported method that is only ever called, as a
// plain call on the caller's own receiver, from methods of the same type, and
// is never used as a value. Such a method is a fragment of its callers.
func (x *c22ctx) privateHelper(fn *ssa.Function, k *c22kind) bool {
	if fn.Object() == nil || fn.Object().Exported() || fn.Parent() != nil {
		return false
	}
	sites := x.c.P.CallSites(fn)
	if len(sites) == 0 {
		return false
	}
	for _, site := range sites {
		call, isCall := site.(*ssa.Call)
		caller := site.Parent()
		if !isCall || caller == fn || x.kindOf(caller) != k || len(call.Call.Args) == 0 || call.Call.Args[0] != ssa.Value(caller.Params[0]) {
			return false
		}
	}
	taken := false
	for _, g := range x.c.P.SrcFuncs(c22pkg) {
		core.Instrs(g, func(in ssa.Instruction) {
			var ops []*ssa.Value
			for _, op := range in.Operands(ops) {
				if op == nil || *op == nil || *op != ssa.Value(fn) {
					continue
				}
				if ci, isCall := in.(ssa.CallInstruction); isCall && ci.Common().Value == ssa.Value(fn) {
					continue
				}
				taken = true
			}
		})
	}
	return !taken
}

func c22pathSig(p *core.Path) string {
	var parts []string
	seen := map[string]bool{}
	p.Edges(func(cond ssa.Value, taken bool) {
		s := core.Render(cond)
		if !taken {
			s = "!" + s
		}
		if !seen[s] {
			seen[s] = true
			parts = append(parts, s)
		}
	})
	if len(parts) > 8 {
		parts = append(parts[:8], "…")
	}
	return strings.Join(parts, " & ")
}

func runC22(c *core.Ctx) {
	defer uuShapeGuard(c)
	p := c.P
	pk := p.Pkg(c22pkg)
	if pk == nil {
		c.Missing(c22pkg)
		return
	}
	x := &c22ctx{c: c, sums: map[*ssa.Function]*c22summary{}}
	mk := func(name string, plus, minus []string, counter, under string, events ...string) *c22kind {
		tn, ok := p.Obj(c22pkg, name).(*types.TypeName)
		if !ok {
			c.Missing(c22pkg + "." + name)
			return nil
		}
		named, _ := tn.Type().(*types.Named)
		k := &c22kind{name: name, typ: named, fields: map[*types.Var]bool{}, plus: map[*types.Var]bool{}, minus: map[*types.Var]bool{}, events: map[string]bool{}}
		fv := func(n string) *types.Var {
			v, _ := p.Obj(c22pkg, name+"."+n).(*types.Var)
			if v == nil {
				c.Missing(c22pkg + "." + name + "." + n)
			}
			return v
		}
		stt, _ := named.Underlying().(*types.Struct)
		if stt == nil {
			c.Missing(c22pkg + "." + name + " (struct)")
			return nil
		}
		for i := 0; i < stt.NumFields(); i++ {
			if c22isInt(stt.Field(i).Type()) {
				k.fields[stt.Field(i)] = true
			}
		}
		bad := false
		for _, n := range plus {
			if v := fv(n); v != nil {
				k.plus[v] = true
			} else {
				bad = true
			}
		}
		for _, n := range minus {
			if v := fv(n); v != nil {
				k.minus[v] = true
			} else {
				bad = true
			}
		}
		k.counter, k.under, k.buf = fv(counter), fv(under), fv("buf")
		if bad || k.counter == nil || k.under == nil || k.buf == nil {
			return nil
		}
		for _, ev := range events {
			k.events[ev] = true
		}
		return k
	}
	rk := mk("Reader", []string{"r"}, []string{"w"}, "TotalRead", "rd", "Read", "WriteTo")
	wk := mk("Writer", []string{"n"}, nil, "TotalWrite", "wr", "Write", "ReadFrom")
	if rk == nil || wk == nil {
		return
	}
	x.kinds = []*c22kind{rk, wk}

	// ---- lockstep per method / return
	var methods []*ssa.Function
	for _, fn := range p.SrcFuncs(c22pkg) {
		if core.FuncPkgRel(fn) == c22pkg && fn.Parent() == nil && x.kindOf(fn) != nil {
			methods = append(methods, fn)
		}
	}
	nObl := 0
	for _, fn := range methods {
		k := x.kindOf(fn)
		s := x.summary(fn)
		name := k.name + "." + fn.Name()
		c.Analysed(core.FuncKey(fn))
		if s.resets {
			continue
		}
		c.Check("paths", name, fn.Pos(), s.complete, fmt.Sprintf("path enumeration of %s stopped after %d paths: the lockstep obligation is undecided", name, s.paths))
		if s.inlineMulti {
			c.Note("lockstep: %s is a private helper that is not balanced on its own; it carries no obligation and is executed inline on every path of its callers", name)
			continue
		}
		rets := core.Returns(fn)
		sort.Slice(rets, func(i, j int) bool { return rets[i].Pos() < rets[j].Pos() })
		for i, r := range rets {
			if s.retSeen[r] == 0 {
				continue // no feasible path reaches it under the assumptions (e.g. saturation branches)
			}
			bad, isBad := s.retBad[r]
			nObl++
			c.Check("lockstep", fmt.Sprintf("%s:return#%d", name, i+1), r.Pos(), !isBad, name+": the byte count and "+k.counter.Name()+" move out of step — "+bad)
		}
	}
	c.Min("lockstep", 40)
	c.Min("paths", 20)
	c.Note("lockstep: %d methods of Reader/Writer analysed", len(methods))
	if fill := p.Func(c22pkg, "Reader.fill"); fill == nil {
		c.Missing(c22pkg + ".Reader.fill")
	} else {
		z := false
		for f := range x.summary(fill).finalZero {
			if rk.plus[f] {
				z = true
			}
		}
		c.Check("fill-summary", "Reader.fill:leaves-r-zero", fill.Pos(), z, "Reader.fill no longer provably leaves b.r == 0 (slide to the beginning): callers that assign b.r after fill (ReadSlice) cannot be balanced")
	}

	// ---- resets zero cursor and counter together
	for _, fn := range methods {
		k := x.kindOf(fn)
		s := x.summary(fn)
		if !s.resets {
			continue
		}
		name := k.name + "." + fn.Name()
		whole := false
		val := map[string]string{}
		core.Instrs(fn, func(in ssa.Instruction) {
			st, isSt := in.(*ssa.Store)
			if !isSt {
				return
			}
			if st.Addr == ssa.Value(fn.Params[0]) {
				if kk, isK := st.Val.(*ssa.Const); isK && kk.Value == nil {
					whole = true
				} else {
					val["*"] = core.Render(st.Val)
				}
				return
			}
			if f, base := uuFieldAddr(st.Addr); f != nil && base == ssa.Value(fn.Params[0]) && (k.plus[f] || k.minus[f] || f == k.counter) {
				val[f.Name()] = core.Render(st.Val)
			}
		})
		var why []string
		if v, ok := val["*"]; ok {
			why = append(why, "stores the composite value "+v+" the rule cannot follow")
		}
		need := []*types.Var{k.counter}
		for f := range k.plus {
			need = append(need, f)
		}
		for f := range k.minus {
			need = append(need, f)
		}
		sort.Slice(need, func(i, j int) bool { return need[i].Name() < need[j].Name() })
		for _, f := range need {
			v, set := val[f.Name()]
			if (set && v != "0") || (!set && !whole) {
				if !set {
					v = "its old value"
				}
				why = append(why, f.Name()+" is left at "+v)
			}
		}
		c.Check("reset", name, fn.Pos(), len(why) == 0, name+" must zero the cursor fields and "+k.counter.Name()+" together (a new stream starts at count 0 with an empty buffer): "+strings.Join(why, "; "))
	}
	c.Min("reset", 2)

	// ---- who may write the cursor / counter fields
	for _, k := range x.kinds {
		var flds []*types.Var
		for f := range k.plus {
			flds = append(flds, f)
		}
		for f := range k.minus {
			flds = append(flds, f)
		}
		flds = append(flds, k.counter)
		sort.Slice(flds, func(i, j int) bool { return flds[i].Name() < flds[j].Name() })
		for _, f := range flds {
			var foreign []string
			var pos token.Pos
			n := 0
			for _, fn := range p.SrcFuncs("") {
				core.Instrs(fn, func(in ssa.Instruction) {
					fa, ok := in.(*ssa.FieldAddr)
					if !ok || core.FieldObj(fa.X, fa.Field) != f || fa.Referrers() == nil {
						return
					}
					for _, r := range *fa.Referrers() {
						st, isSt := r.(*ssa.Store)
						isWrite := isSt && st.Addr == ssa.Value(fa)
						if _, isLoad := r.(*ssa.UnOp); !isWrite && !isLoad {
							isWrite = true // address escapes
						}
						if !isWrite {
							continue
						}
						n++
						if core.FuncPkgRel(fn) != c22pkg {
							foreign = append(foreign, core.FuncKey(fn))
							pos = r.Pos()
						}
					}
				})
			}
			c.Check("counter-writers", k.name+"."+f.Name(), pos, len(foreign) == 0 && n > 0, k.name+"."+f.Name()+" is written outside bfe_bufio ("+strings.Join(foreign, ", ")+"): the lockstep between cursor and counter established per method no longer holds across calls")
		}
	}
	c.Min("counter-writers", 5)
	_ = nObl

	// ---- data path: direct reads, UnreadByte, slides
	{
		fv := func(n string) *types.Var {
			v, _ := p.Obj(c22pkg, "Reader."+n).(*types.Var)
			if v == nil {
				c.Missing(c22pkg + ".Reader." + n)
			}
			return v
		}
		F := c22unreadFields{buf: fv("buf"), r: fv("r"), w: fv("w"), rd: fv("rd"), lastByte: fv("lastByte"), lastRune: fv("lastRuneSize")}
		unread := p.Func(c22pkg, "Reader.UnreadByte")
		if unread == nil {
			c.Missing(c22pkg + ".Reader.UnreadByte")
		}
		if F.buf != nil && F.r != nil && F.w != nil && F.rd != nil && F.lastByte != nil && F.lastRune != nil && unread != nil {
			var readers []*ssa.Function
			for _, fn := range methods {
				if x.kindOf(fn) == rk {
					readers = append(readers, fn)
				}
			}
			c22BypassAndUnread(c, readers, F, unread)
			if errF := fv("err"); errF != nil {
				c22PendingError(c, readers, c22pendFields{r: F.r, w: F.w, err: errF})
			}
		}
	}
}
