package rules

import (
	"fmt"
	"go/token"
	"go/types"
	"sort"
	"strings"

	"golang.org/x/tools/go/ssa"

	"verif/internal/core"
)

// C09 — balancer reload keeps surviving state and releases removed targets once.
func init() {
	Register(&Rule{
		ID: "C09", Section: "3 C09",
		Technique: "keep-xor-release partition rule on go/ssa (per old element: path disjointness and must-pass of the keep and release sites), publish-before-return path rule, who-may-call census of the release chain, key-format agreement",
		Meta: core.Meta{
			Level:       "other",
			Explanation: "Decides for BalanceRR.Update, BalanceGslb.Reload and BalTable.BalTableReload (each with its private helpers and closures; containers, locks and maps are identified by field object and parameter, not by local names): (a) keep-xor-release — each element taken from the published container is, within one iteration, either carried into the replacement container (the same object, so availability and counters persist) or released (directly or by a private helper that always releases its argument), never both and never neither; a kept backend is removed from the pending-config map so it is not created again and is kept only where the lookup hit and MatchAddrPort of that element are established (also through a named boolean), a kept balancer is deleted from the old table before the release pass, the release pass releases every remaining old element unconditionally; new elements are created only for names/addresses not matched to an old element; (b) the replacement container is stored into the published field on every path to a success return, under the lock (held at the store or at every call site of the helper containing it); (c) release chain census: BfeBackend.Close <- BfeBackend.Release <- BackendRR.Release <- {BalanceRR.Update, BalanceRR.Release} <- SubCluster.release <- {BalanceGslb.Reload, BalanceGslb.Release} <- BalTableReload and their private helpers, no other callers; (d) old and new backends are matched by the same addr:port key format on both sides. Not covered: histories (duplicate addresses in one config and what later reloads do with them), the error path of BalanceGslb.Reload after some sub-clusters were released (input rejected earlier by GslbConfLoad; noted); a keep step moved into a helper (append inside a callee) is reported as unresolved.",
			RuleText:    "obligations = per reload function: each old-element load with its keep and release sites, the publish store, the creation guard; each caller in the release chain; the two key formatters",
		},
		Run: runC09,
		Mutants: []Mutant{
			{Name: "update-release-and-keep", File: "bfe_balance/bal_slb/bal_rr.go", Old: "			backendRR.UpdateWeight(*bkConf.Weight)\n			backendsNew = append(backendsNew, backendRR)\n			delete(confMap, backendKey)\n		} else {", New: "			backendRR.UpdateWeight(*bkConf.Weight)\n			backendsNew = append(backendsNew, backendRR)\n			delete(confMap, backendKey)\n			if *bkConf.Weight == 0 {\n				backendRR.Release()\n			}\n		} else {", Expect: "partition"},
			{Name: "update-drop-without-release", File: "bfe_balance/bal_slb/bal_rr.go", Old: "		} else {\n			// tell healthcheck to stop\n			backendRR.Release()\n		}", New: "		} else if ok {\n			// tell healthcheck to stop\n			backendRR.Release()\n		}", Expect: "partition"},
			{Name: "update-survivor-readded", File: "bfe_balance/bal_slb/bal_rr.go", Old: "			backendsNew = append(backendsNew, backendRR)\n			delete(confMap, backendKey)\n", New: "			backendsNew = append(backendsNew, backendRR)\n", Expect: "kept-removed-from-pending"},
			{Name: "reload-release-kept-zero-weight", File: "bfe_balance/bal_gslb/bal_gslb.go", Old: "			// add sub cluster to subListNew\n			subListNew = append(subListNew, sub)\n		} else {", New: "			// add sub cluster to subListNew\n			subListNew = append(subListNew, sub)\n			if weight < 0 {\n				sub.release()\n			}\n		} else {", Expect: "partition"},
			{Name: "reload-recreates-existing", File: "bfe_balance/bal_gslb/bal_gslb.go", Old: "		// record in the map of subExist\n		subExist[sub.Name] = true\n", New: "		// record in the map of subExist\n		if ok {\n			subExist[sub.Name] = weight > 0\n		}\n", Expect: "create-guard"},
			{Name: "table-kept-not-deleted", File: "bfe_balance/bal_table.go", Old: "		} else {\n			delete(t.balTable, clusterName)\n		}", New: "		}", Expect: "kept-removed-from-old"},
			{Name: "table-release-conditional", File: "bfe_balance/bal_table.go", Old: "	for _, remainder := range t.balTable {\n		remainder.Release()\n	}", New: "	for name, remainder := range t.balTable {\n		if _, ok := (*backendConfs.Config)[name]; !ok {\n			remainder.Release()\n		}\n	}", Expect: "release-pass"},
			{Name: "standby-subcluster-skipped", File: "bfe_balance/bal_gslb/bal_gslb.go", Old: "	for _, subCluster := range bal.subClusters {\n		if backend, ok := clusterBackend[subCluster.Name]; ok {\n			subCluster.update(backend)", New: "	for _, subCluster := range bal.subClusters {\n		if subCluster.weight <= 0 {\n			continue\n		}\n		if backend, ok := clusterBackend[subCluster.Name]; ok {\n			subCluster.update(backend)", Expect: "update-all"},
			{Name: "extra-release-caller", File: "bfe_balance/bal_gslb/bal_gslb.go", Old: "func (bal *BalanceGslb) BackendReload(clusterBackend cluster_table_conf.ClusterBackend) error {\n	bal.lock.Lock()\n\n	for _, subCluster := range bal.subClusters {\n		if backend, ok := clusterBackend[subCluster.Name]; ok {\n			subCluster.update(backend)\n		}", New: "func (bal *BalanceGslb) BackendReload(clusterBackend cluster_table_conf.ClusterBackend) error {\n	bal.lock.Lock()\n\n	for _, subCluster := range bal.subClusters {\n		if backend, ok := clusterBackend[subCluster.Name]; ok {\n			subCluster.update(backend)\n		} else {\n			subCluster.release()\n		}", Expect: "release-chain"},
			// behaviour-preserving edits: the verdict must not change
			{Name: "silent-update-restructured", Silent: true, File: "bfe_balance/bal_slb/bal_rr.go",
				Old: "	// go through backendsOld, make update and delete\n	for index := 0; index < len(brr.backends); index++ {\n		backendRR := brr.backends[index]\n\n		backendKey := backendRR.backend.GetAddrInfo()\n		bkConf, ok := confMap[backendKey]\n		if ok && backendRR.MatchAddrPort(*bkConf.Addr, *bkConf.Port) {\n			// found existing backend\n			backendRR.UpdateWeight(*bkConf.Weight)\n			backendsNew = append(backendsNew, backendRR)\n			delete(confMap, backendKey)\n		} else {\n			// tell healthcheck to stop\n			backendRR.Release()\n		}\n	}\n",
				New: "	// tell healthcheck of a removed backend to stop\n	stop := func(removed *BackendRR) {\n		removed.Release()\n	}\n\n	// go through backendsOld, make update and delete\n	for _, old := range brr.backends {\n		key := old.backend.GetAddrInfo()\n		newConf, present := confMap[key]\n		unchanged := present && old.MatchAddrPort(*newConf.Addr, *newConf.Port)\n		if !unchanged {\n			stop(old)\n			continue\n		}\n		// found existing backend\n		delete(confMap, key)\n		old.UpdateWeight(*newConf.Weight)\n		backendsNew = append(backendsNew, old)\n	}\n"},
			{Name: "silent-table-lookup-inverted", Silent: true, File: "bfe_balance/bal_table.go",
				Old: "		bal, ok := t.balTable[clusterName]\n		if !ok {\n			// new one balance\n			bal = bal_gslb.NewBalanceGslb(clusterName)\n		} else {\n			delete(t.balTable, clusterName)\n		}",
				New: "		bal, existed := t.balTable[clusterName]\n		if existed {\n			delete(t.balTable, clusterName)\n		} else {\n			// new one balance\n			bal = bal_gslb.NewBalanceGslb(clusterName)\n		}"},
			{Name: "silent-backend-reload-renamed-defer", Silent: true, File: "bfe_balance/bal_gslb/bal_gslb.go",
				Old: "func (bal *BalanceGslb) BackendReload(clusterBackend cluster_table_conf.ClusterBackend) error {\n	bal.lock.Lock()\n\n	for _, subCluster := range bal.subClusters {\n		if backend, ok := clusterBackend[subCluster.Name]; ok {\n			subCluster.update(backend)\n		}\n	}\n\n	bal.lock.Unlock()\n\n	return nil\n}",
				New: "func (bal *BalanceGslb) BackendReload(table cluster_table_conf.ClusterBackend) error {\n	bal.lock.Lock()\n	defer bal.lock.Unlock()\n\n	for i := 0; i < len(bal.subClusters); i++ {\n		sub := bal.subClusters[i]\n		backends, found := table[sub.Name]\n		if !found {\n			continue\n		}\n		sub.update(backends)\n	}\n\n	return nil\n}"},
			{Name: "silent-reload-debug-log", Silent: true, File: "bfe_balance/bal_gslb/bal_gslb.go",
				Old: "			// add sub cluster to subListNew\n			subListNew = append(subListNew, sub)\n		} else {",
				New: "			// add sub cluster to subListNew\n			subListNew = append(subListNew, sub)\n			log.Logger.Debug(\"keep subcluster %s, weight %d\", sub.Name, weight)\n			if len(subListNew) == 0 {\n				// never here\n				log.Logger.Warn(\"empty sub cluster list after append\")\n			}\n		} else {"},
		},
	})
}

// appendedElems lists the values appended by a call of the append builtin.
func appendedElems(call *ssa.Call) []ssa.Value {
	b, ok := call.Call.Value.(*ssa.Builtin)
	if !ok || b.Name() != "append" || len(call.Call.Args) != 2 {
		return nil
	}
	sl, ok := call.Call.Args[1].(*ssa.Slice)
	if !ok {
		return nil
	}
	al, ok := sl.X.(*ssa.Alloc)
	if !ok {
		return nil
	}
	var out []ssa.Value
	for _, r := range *al.Referrers() {
		if ia, ok := r.(*ssa.IndexAddr); ok {
			for _, rr := range *ia.Referrers() {
				if st, ok := rr.(*ssa.Store); ok && st.Addr == ia {
					out = append(out, st.Val)
				}
			}
		}
	}
	return out
}

// partition checks keep-xor-release for the element values elems of fn.
func partition(c *core.Ctx, fn *ssa.Function, name string, base int, elems []ssa.Value, keep, release func(in ssa.Instruction, e ssa.Value) bool) {
	if len(elems) == 0 {
		c.Check("partition", name+":elements", fn.Pos(), false, "no load of an element of the published container found; the reload no longer iterates the old elements in a form the rule can follow")
		return
	}
	loops := core.Loops(fn)
	for i, e := range elems {
		ei, _ := e.(ssa.Instruction)
		if ei == nil {
			continue
		}
		var hdr *ssa.BasicBlock
		for _, l := range loops {
			if l.Body[ei.Block()] {
				if hdr == nil || hdr.Dominates(l.Header) {
					hdr = l.Header
				}
			}
		}
		boundary := func(x ssa.Instruction) bool {
			if core.IsReturn(x) {
				return true
			}
			return hdr != nil && x.Block() == hdr && x == hdr.Instrs[0]
		}
		var keeps, rels []ssa.Instruction
		for _, in := range allInstrs(fn) {
			if keep(in, e) {
				keeps = append(keeps, in)
			}
			if release(in, e) {
				rels = append(rels, in)
			}
		}
		key := fmt.Sprintf("%s:elem#%d", name, base+i)
		if len(keeps) == 0 || len(rels) == 0 {
			c.Check("partition", key, ei.Pos(), false, fmt.Sprintf("old element %s has %d keep site(s) and %d release site(s); both a carry-over and a release branch are required", core.Render(e), len(keeps), len(rels)))
			continue
		}
		disjoint := true
		for _, k := range keeps {
			for _, r := range rels {
				if core.ReachAvoiding(fn, k, boundary, func(x ssa.Instruction) bool { return x == r }) != nil ||
					core.ReachAvoiding(fn, r, boundary, func(x ssa.Instruction) bool { return x == k }) != nil {
					disjoint = false
				}
			}
		}
		isKR := func(x ssa.Instruction) bool {
			for _, k := range keeps {
				if x == k {
					return true
				}
			}
			for _, r := range rels {
				if x == r {
					return true
				}
			}
			return false
		}
		dropped := core.ReachAvoiding(fn, ei, isKR, boundary)
		c.Check("partition", key, ei.Pos(), disjoint && dropped == nil,
			fmt.Sprintf("old element %s: kept and released on one path = %v (a released object stays in service / is released again later); neither kept nor released on some path = %v (its health checker is never stopped)", core.Render(e), !disjoint, dropped != nil))
	}
}

func runC09(c *core.Ctx) {
	const slb, gslb, tbl, bk = "bfe_balance/bal_slb", "bfe_balance/bal_gslb", "bfe_balance", "bfe_balance/backend"
	// old elements: loads of an element of the published container (identified by field object)
	oldElems := func(rg *rRegion, fld *types.Var) map[*ssa.Function][]ssa.Value {
		out := map[*ssa.Function][]ssa.Value{}
		rg.instrs(func(in ssa.Instruction) {
			if u, ok := in.(*ssa.UnOp); ok && u.Op == token.MUL {
				if ia, ok := u.X.(*ssa.IndexAddr); ok && rFieldLoad(ia.X, fld) != nil {
					out[in.Parent()] = append(out[in.Parent()], u)
				}
			}
		})
		return out
	}
	// the comma-ok result of a map lookup
	lookupOK := func(v ssa.Value) *ssa.Lookup {
		ex, ok := v.(*ssa.Extract)
		if !ok || ex.Index != 1 {
			return nil
		}
		lk, ok := ex.Tuple.(*ssa.Lookup)
		if !ok || !lk.CommaOk {
			return nil
		}
		return lk
	}
	// ---- BalanceRR.Update -----------------------------------------------------------------------
	if fn := c.P.Func(slb, "BalanceRR.Update"); fn == nil {
		c.Missing(slb + ".BalanceRR.Update")
	} else if fld, ok := c.P.Obj(slb, "BalanceRR.backends").(*types.Var); !ok {
		c.Missing(slb + ".BalanceRR.backends")
	} else {
		c.Analysed(core.FuncKey(fn))
		rg := rNewRegion(c.P, fn)
		type kept struct {
			call *ssa.Call
			e    ssa.Value
		}
		var keeps []kept
		seenKeep := map[*ssa.Call]bool{}
		byFn := oldElems(rg, fld)
		base := 0
		for _, g := range rg.fns {
			if len(byFn[g]) == 0 {
				continue
			}
			partition(c, g, "BalanceRR.Update", base, byFn[g],
				func(in ssa.Instruction, e ssa.Value) bool {
					call, ok := in.(*ssa.Call)
					if !ok {
						return false
					}
					for _, a := range appendedElems(call) {
						if a == e {
							if !seenKeep[call] {
								seenKeep[call] = true
								keeps = append(keeps, kept{call, e})
							}
							return true
						}
					}
					return false
				},
				func(in ssa.Instruction, e ssa.Value) bool {
					ci, ok := in.(ssa.CallInstruction)
					if !ok {
						return false
					}
					if core.CallIs(ci.Common(), slb+".BackendRR.Release") {
						return ci.Common().Args[0] == e
					}
					return rAlwaysOnParam(rg, ci, e, slb+".BackendRR.Release")
				})
			base += len(byFn[g])
		}
		if base == 0 {
			partition(c, fn, "BalanceRR.Update", 0, nil, nil, nil)
		}
		// kept element removed from the pending-config map, matched on address and port
		for _, kp := range keeps {
			k := kp.call
			g := k.Parent()
			loops := core.Loops(g)
			l := rLoopOf(loops, k.Block())
			boundary := func(x ssa.Instruction) bool {
				return core.IsReturn(x) || (l != nil && len(l.Header.Instrs) > 0 && x == l.Header.Instrs[0])
			}
			isDel := func(x ssa.Instruction) bool {
				ci, ok := x.(*ssa.Call)
				if !ok {
					return false
				}
				b, isB := ci.Call.Value.(*ssa.Builtin)
				return isB && b.Name() == "delete"
			}
			del := false
			for _, in := range allInstrs(g) {
				if !isDel(in) {
					continue
				}
				// executed whenever the element is kept: in the same block, or dominating the keep site under the same guards
				if in.Block() == k.Block() || (core.Dominates(in, k) && rLoopOf(loops, in.Block()) == l && strings.Join(core.GuardStrs(in.Block()), "&") == strings.Join(core.GuardStrs(k.Block()), "&")) {
					del = true
				}
			}
			if !del && core.ReachAvoiding(g, k, isDel, boundary) == nil {
				del = true // every way from the keep site to the end of the iteration deletes the entry
			}
			c.Check("kept-removed-from-pending", "BalanceRR.Update", k.Pos(), del, "a surviving backend is carried over but its entry stays in the pending-config map: it would be created a second time as a new backend")
			match := rHolds(c.P, k.Block(), func(g core.Guard) bool {
				call, ok := g.Cond.(*ssa.Call)
				return ok && g.Pol && core.CallIs(&call.Call, slb+".BackendRR.MatchAddrPort") && len(call.Call.Args) > 0 && call.Call.Args[0] == kp.e
			})
			found := rHolds(c.P, k.Block(), func(g core.Guard) bool { return g.Pol && lookupOK(g.Cond) != nil })
			c.Check("keep-guard", "BalanceRR.Update", k.Pos(), match && found, "a backend is carried over without having been found in the new config and matched on address and port")
		}
		// new elements are fresh objects
		fresh := 0
		rg.instrs(func(in ssa.Instruction) {
			call, ok := in.(*ssa.Call)
			if !ok {
				return
			}
			for _, a := range appendedElems(call) {
				if cl, isCall := a.(*ssa.Call); isCall && core.CallIs(&cl.Call, slb+".NewBackendRR") {
					fresh++
				}
			}
		})
		c.Check("create-guard", "BalanceRR.Update:new", fn.Pos(), fresh >= 1, fmt.Sprintf("expected a site appending a freshly created BackendRR for unmatched config entries, found %d", fresh))
		checkPublish(c, rg, "BalanceRR.Update", fld, slb+".BalanceRR.Mutex")
	}
	// ---- BalanceGslb.Reload --------------------------------------------------------------------------
	if fn := c.P.Func(gslb, "BalanceGslb.Reload"); fn == nil {
		c.Missing(gslb + ".BalanceGslb.Reload")
	} else if fld, ok := c.P.Obj(gslb, "BalanceGslb.subClusters").(*types.Var); !ok {
		c.Missing(gslb + ".BalanceGslb.subClusters")
	} else {
		c.Analysed(core.FuncKey(fn))
		rg := rNewRegion(c.P, fn)
		byFn := oldElems(rg, fld)
		base := 0
		for _, g := range rg.fns {
			elems := byFn[g]
			if len(elems) == 0 {
				continue
			}
			partition(c, g, "BalanceGslb.Reload", base, elems,
				func(in ssa.Instruction, e ssa.Value) bool {
					call, ok := in.(*ssa.Call)
					if !ok {
						return false
					}
					for _, a := range appendedElems(call) {
						if a == e {
							return true
						}
					}
					return false
				},
				func(in ssa.Instruction, e ssa.Value) bool {
					ci, ok := in.(ssa.CallInstruction)
					if !ok {
						return false
					}
					if core.CallIs(ci.Common(), gslb+".SubCluster.release") {
						return ci.Common().Args[0] == e
					}
					return rAlwaysOnParam(rg, ci, e, gslb+".SubCluster.release")
				})
			// every old name is recorded as existing; creation only for names not recorded
			loops := core.Loops(g)
			for i, e := range elems {
				ei := e.(ssa.Instruction)
				l := rLoopOf(loops, ei.Block())
				bad := core.ReachAvoiding(g, ei, func(x ssa.Instruction) bool {
					mu, ok := x.(*ssa.MapUpdate)
					if !ok || fieldLoadOf(mu.Key, "Name") != e {
						return false
					}
					k, isK := rBoolConst(mu.Value)
					return isK && k
				}, func(x ssa.Instruction) bool {
					return core.IsReturn(x) || (l != nil && len(l.Header.Instrs) > 0 && x == l.Header.Instrs[0])
				})
				c.Check("create-guard", fmt.Sprintf("BalanceGslb.Reload:record#%d", base+i), ei.Pos(), bad == nil, "an existing sub-cluster is not unconditionally recorded as existing; it would be created again as a new sub-cluster (losing its backends' state)")
			}
			base += len(elems)
		}
		if base == 0 {
			partition(c, fn, "BalanceGslb.Reload", 0, nil, nil, nil)
		}
		nNew := 0
		for _, ci := range rg.calls(gslb + ".newSubCluster") {
			nNew++
			ok := rHolds(c.P, ci.(ssa.Instruction).Block(), func(g core.Guard) bool { return !g.Pol && lookupOK(g.Cond) != nil })
			c.Check("create-guard", fmt.Sprintf("BalanceGslb.Reload:new#%d", nNew), ci.Pos(), ok, "a new sub-cluster is created without the name having been found absent from the existing ones")
		}
		c.Min("create-guard", 3)
		checkPublish(c, rg, "BalanceGslb.Reload", fld, gslb+".BalanceGslb.lock")
	}
	// ---- BalTableReload -------------------------------------------------------------------------------------
	if fn := c.P.Func(tbl, "BalTable.BalTableReload"); fn == nil {
		c.Missing(tbl + ".BalTable.BalTableReload")
	} else if fld, ok := c.P.Obj(tbl, "BalTable.balTable").(*types.Var); !ok {
		c.Missing(tbl + ".BalTable.balTable")
	} else {
		c.Analysed(core.FuncKey(fn))
		rg := rNewRegion(c.P, fn)
		isTable := func(v ssa.Value) bool { return rFieldLoad(v, fld) != nil }
		sameVal := func(a, b ssa.Value) bool {
			a, b = core.StripConv(a), core.StripConv(b)
			return a == b || (a.Parent() == b.Parent() && core.Render(a) == core.Render(b))
		}
		// old elements: lookups t.balTable[name] (comma-ok)
		n := 0
		rg.instrs(func(in ssa.Instruction) {
			lk, ok := in.(*ssa.Lookup)
			if !ok || !isTable(lk.X) || !lk.CommaOk {
				return
			}
			n++
			g := in.Parent()
			// the value flows into the new map on the found path; on that path delete(t.balTable, sameKey) must happen
			okDel := false
			for _, x := range allInstrs(g) {
				call, isCall := x.(*ssa.Call)
				if !isCall {
					continue
				}
				if b, isB := call.Call.Value.(*ssa.Builtin); isB && b.Name() == "delete" && isTable(call.Call.Args[0]) && sameVal(call.Call.Args[1], lk.Index) {
					// executed exactly when found
					if rHolds(c.P, call.Block(), func(g core.Guard) bool { return g.Pol && lookupOK(g.Cond) == lk }) {
						okDel = true
					}
				}
			}
			c.Check("kept-removed-from-old", fmt.Sprintf("BalTableReload:lookup#%d", n), in.Pos(), okDel, "a balancer found in the old table is carried into the new table but not deleted from the old one before the release pass: it is released while still in service (and again on a later reload)")
			// carried into the new map under the same key
			carried := false
			for _, x := range allInstrs(g) {
				if mu, isMU := x.(*ssa.MapUpdate); isMU && sameVal(mu.Key, lk.Index) && !isTable(mu.Map) {
					carried = true
				}
			}
			c.Check("partition", fmt.Sprintf("BalTableReload:carry#%d", n), in.Pos(), carried, "the balancer looked up in the old table is not stored into the replacement table")
		})
		if n == 0 {
			c.Check("kept-removed-from-old", "BalTableReload:lookup", fn.Pos(), false, "no lookup of the old table found")
		}
		// release pass: range over t.balTable, Release on every element, unconditionally, after the carry loop and before publish
		nRel := 0
		isPublish := func(x ssa.Instruction) bool {
			st, ok := x.(*ssa.Store)
			return ok && rFieldAddr(st.Addr, fld) != nil
		}
		for _, ci := range rg.calls(gslb + ".BalanceGslb.Release") {
			nRel++
			in := ci.(ssa.Instruction)
			recv := ci.Common().Args[0]
			fromOld := false
			if ex, ok := core.StripConv(recv).(*ssa.Extract); ok && ex.Index == 2 {
				if nx, ok := ex.Tuple.(*ssa.Next); ok {
					if r, ok := nx.Iter.(*ssa.Range); ok && isTable(r.X) {
						fromOld = true
					}
				}
			}
			loopGuardsOnly := len(core.SkipFilters(in.Block())) == 0
			c.Check("release-pass", fmt.Sprintf("BalTableReload:release#%d", nRel), in.Pos(), fromOld && loopGuardsOnly,
				"the release pass must release every balancer remaining in the old table unconditionally (receiver: "+core.Render(recv)+"; guards: "+strings.Join(core.GuardStrs(in.Block()), " && ")+")")
			// publish after release
			pub := core.ReachAvoiding(in.Parent(), in, nil, core.LiftMay(isPublish, 2)) != nil
			c.Check("release-pass", fmt.Sprintf("BalTableReload:then-publish#%d", nRel), in.Pos(), pub, "the replacement table must be published after the release pass")
		}
		if nRel < 1 {
			c.Check("release-pass", "BalTableReload:sites", fn.Pos(), false, fmt.Sprintf("expected a release site for the balancers left in the old table, found %d", nRel))
		}
		checkPublish(c, rg, "BalTableReload", fld, tbl+".BalTable.lock")
	}
	// ---- backend lists of every sub-cluster follow the cluster table -----------------------------
	// BackendReload / BackendInit hand the new backend list to every sub-cluster named in the
	// cluster table: the update/init call is guarded only by the loop and the table lookup hit,
	// otherwise removed backends of a skipped sub-cluster (e.g. a weight-0 standby used for cross
	// retry) are neither released nor replaced.
	for _, spec := range []struct{ fn, callee string }{{"BalanceGslb.BackendReload", gslb + ".SubCluster.update"}, {"BalanceGslb.BackendInit", gslb + ".SubCluster.init"}} {
		fn := c.P.Func(gslb, spec.fn)
		if fn == nil {
			c.Missing(gslb + "." + spec.fn)
			continue
		}
		c.Analysed(core.FuncKey(fn))
		rg := rNewRegion(c.P, fn)
		calls := rg.calls(spec.callee)
		if len(calls) == 0 {
			c.Check("update-all", spec.fn, fn.Pos(), false, fmt.Sprintf("expected a call of %s, found none", spec.callee))
			continue
		}
		for _, call := range calls {
			var extra []string
			for _, g := range core.SkipFilters(call.(ssa.Instruction).Block()) {
				// the lookup hit in the cluster table handed in by the caller
				if lk := lookupOK(g.Cond); lk != nil && g.Pol && len(rg.origins(lk.X)) > 0 {
					fromParam := true
					for _, o := range rg.origins(lk.X) {
						if p := rParamOf(o); p == nil || p.Parent() != fn {
							fromParam = false
						}
					}
					if fromParam {
						continue
					}
				}
				extra = append(extra, g.Str)
			}
			c.Check("update-all", spec.fn, call.Pos(), len(extra) == 0, spec.fn+" skips sub-clusters under "+strings.Join(extra, " && ")+": their removed backends are never released and new ones never installed")
		}
	}
	// ---- release chain census ------------------------------------------------------------------------------------
	chain := map[string][]string{
		bk + ".BfeBackend.Close":      {bk + ".BfeBackend.Release"},
		bk + ".BfeBackend.Release":    {slb + ".BackendRR.Release"},
		slb + ".BackendRR.Release":    {slb + ".BalanceRR.Update", slb + ".BalanceRR.Release"},
		slb + ".BalanceRR.Release":    {gslb + ".SubCluster.release"},
		gslb + ".SubCluster.release":  {gslb + ".BalanceGslb.Reload", gslb + ".BalanceGslb.Release"},
		gslb + ".BalanceGslb.Release": {tbl + ".BalTable.BalTableReload"},
	}
	var keys []string
	for k := range chain {
		keys = append(keys, k)
	}
	sort.Strings(keys)
	all := c.P.SrcFuncs("")
	// a private helper (or closure) of an allowed caller is part of that caller
	ownerOf := map[string]map[*ssa.Function]bool{}
	owner := func(key string) map[*ssa.Function]bool {
		if m, ok := ownerOf[key]; ok {
			return m
		}
		m := map[*ssa.Function]bool{}
		i := strings.LastIndex(key, ".")
		j := strings.LastIndex(key[:i], ".")
		if root := c.P.Func(key[:j], key[j+1:]); root != nil {
			for _, g := range c.P.Region(root) {
				m[g] = true
			}
		}
		ownerOf[key] = m
		return m
	}
	for _, callee := range keys {
		n := 0
		for _, f := range all {
			if len(core.Calls(f, callee)) == 0 {
				continue
			}
			n++
			ok := false
			for _, a := range chain[callee] {
				if a == core.FuncKey(f) || owner(a)[f] {
					ok = true
				}
			}
			c.Check("release-chain", callee+"<-"+core.FuncKey(f), f.Pos(), ok, core.FuncKey(f)+" calls "+callee+"; only "+strings.Join(chain[callee], ", ")+" may release (a release outside the reload partition closes a health-check channel that a later reload closes again)")
		}
		if n == 0 {
			c.Check("release-chain", callee+"<-none", token.NoPos, false, callee+" is never called: removed targets are no longer released")
		}
	}
	c.Min("release-chain", 8)
	// BalanceRR.Release / BalanceGslb.Release release every element
	for _, spec := range []struct{ pkg, fn, callee string }{{slb, "BalanceRR.Release", slb + ".BackendRR.Release"}, {gslb, "BalanceGslb.Release", gslb + ".SubCluster.release"}} {
		fn := c.P.Func(spec.pkg, spec.fn)
		if fn == nil {
			c.Missing(spec.pkg + "." + spec.fn)
			continue
		}
		calls := c.P.RegionCalls(fn, spec.callee)
		ok := len(calls) > 0
		for _, ci := range calls {
			if len(core.SkipFilters(ci.(ssa.Instruction).Block())) > 0 {
				ok = false
			}
		}
		c.Check("release-all", spec.fn, fn.Pos(), ok, spec.fn+" must release every element of its list unconditionally")
	}
	// ---- key agreement ---------------------------------------------------------------------------------------------------
	fmtOf := func(pkg, fname string) (string, string) {
		fn := c.P.Func(pkg, fname)
		if fn == nil {
			c.Missing(pkg + "." + fname)
			return "", ""
		}
		for _, ci := range core.Calls(fn, "fmt.Sprintf") {
			s, _ := core.ConstString(ci.Common().Args[0])
			var args []string
			if sl, ok := ci.Common().Args[1].(*ssa.Slice); ok {
				if al, ok := sl.X.(*ssa.Alloc); ok {
					type kv struct {
						i int
						s string
					}
					var kvs []kv
					for _, r := range *al.Referrers() {
						if ia, ok := r.(*ssa.IndexAddr); ok {
							for _, rr := range *ia.Referrers() {
								if st, ok := rr.(*ssa.Store); ok && st.Addr == ia {
									idx := 0
									if k, isK := ia.Index.(*ssa.Const); isK {
										fmt.Sscan(k.Value.ExactString(), &idx)
									}
									r := core.Render(st.Val)
									kvs = append(kvs, kv{idx, r[strings.LastIndex(r, ".")+1:]})
								}
							}
						}
					}
					sort.Slice(kvs, func(i, j int) bool { return kvs[i].i < kvs[j].i })
					for _, k := range kvs {
						args = append(args, k.s)
					}
				}
			}
			return s, strings.Join(args, ",")
		}
		return "", ""
	}
	f1, a1 := fmtOf("bfe_config/bfe_cluster_conf/cluster_table_conf", "BackendConf.AddrInfo")
	f2, a2 := fmtOf(bk, "BfeBackend.Init")
	c.Check("key-agreement", "AddrInfo", token.NoPos, f1 != "" && f1 == f2 && a1 == a2 && a1 == "Addr,Port",
		fmt.Sprintf("config side keys backends by Sprintf(%q, %s), balancer side by Sprintf(%q, %s); they must be the same function of (Addr, Port) or survivors are not recognised", f1, a1, f2, a2))
	if cm := c.P.Func(slb, "confMapMake"); cm != nil {
		ok := false
		core.Instrs(cm, func(in ssa.Instruction) {
			if mu, isMU := in.(*ssa.MapUpdate); isMU && strings.Contains(core.Render(mu.Key), "BackendConf.AddrInfo(") {
				ok = true
			}
		})
		c.Check("key-agreement", "confMapMake", cm.Pos(), ok, "the pending-config map must be keyed by BackendConf.AddrInfo()")
	} else {
		c.Missing(slb + ".confMapMake")
	}
	if up := c.P.Func(slb, "BalanceRR.Update"); up != nil {
		ok := false
		core.Instrs(up, func(in ssa.Instruction) {
			if lk, isLk := in.(*ssa.Lookup); isLk && strings.Contains(core.Render(lk.Index), "BfeBackend.GetAddrInfo(") {
				ok = true
			}
		})
		c.Check("key-agreement", "BalanceRR.Update:lookup", up.Pos(), ok, "old backends must be looked up in the pending-config map by BfeBackend.GetAddrInfo()")
	}
	_ = types.Universe
}

// checkPublish: the replacement container is stored into the field fld on
// every path from entry to a success return, with the lock (type-based key)
// held; the store may sit in a private helper of the region.
func checkPublish(c *core.Ctx, rg *rRegion, name string, fld *types.Var, lock string) {
	fn := rg.root
	isStore := func(x ssa.Instruction) bool {
		st, ok := x.(*ssa.Store)
		return ok && rFieldAddr(st.Addr, fld) != nil
	}
	var stores []ssa.Instruction
	rg.instrs(func(in ssa.Instruction) {
		if isStore(in) {
			stores = append(stores, in)
		}
	})
	if len(stores) == 0 {
		c.Check("publish", name, fn.Pos(), false, "the replacement container is never stored into "+fld.Name())
		return
	}
	bad := core.ReachAvoiding(fn, nil, core.LiftMust(isStore, 2), func(x ssa.Instruction) bool {
		r, ok := x.(*ssa.Return)
		if !ok {
			return false
		}
		rv := core.RetVals(r)
		return len(rv) == 0 || isNilConst(rv[len(rv)-1]) || !errKnownNonNil(rv[len(rv)-1], r.Block())
	})
	sets := map[*ssa.Function]*core.LockSets{}
	var held func(in ssa.Instruction, d int) bool
	held = func(in ssa.Instruction, d int) bool {
		f := in.Parent()
		if sets[f] == nil {
			sets[f] = core.ComputeLockSetsT(f)
		}
		if sets[f].Holds(in, lock, "W") {
			return true
		}
		if f == fn || d <= 0 || len(rg.sites[f]) == 0 {
			return false
		}
		for _, s := range rg.sites[f] {
			if _, plain := s.(*ssa.Call); !plain || !held(s, d-1) {
				return false
			}
		}
		return true
	}
	locked := true
	for _, s := range stores {
		if !held(s, 3) {
			locked = false
		}
	}
	c.Check("publish", name, stores[0].Pos(), bad == nil && locked, fmt.Sprintf("%s must be assigned the replacement container on every path to a success return (missing on some path: %v) while holding %s (held: %v)", fld.Name(), bad != nil, lock, locked))
}
