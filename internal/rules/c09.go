package rules

import (
	"fmt"
	"go/token"
	"go/types"
	"sort"
	"strings"

	"golang.org/x/tools/go/ssa"

	"verif/internal/core"
)

// C09 — balancer reload keeps surviving state and releases removed targets once.
func init() {
	Register(&Rule{
		ID: "C09", Section: "3 C09",
		Technique: "keep-xor-release partition rule on go/ssa (per old element: path disjointness and must-pass of the keep and release sites), publish-before-return path rule, who-may-call census of the release chain, key-format agreement",
		Meta: core.Meta{
			Level: "other",
			Explanation: "Decides for BalanceRR.Update, BalanceGslb.Reload and BalTable.BalTableReload: (a) keep-xor-release — each element taken from the published container is, within one iteration, either carried into the replacement container (the same object, so availability and counters persist) or released, never both and never neither; a kept backend is removed from the pending-config map so it is not created again, a kept balancer is deleted from the old table before the release pass, the release pass releases every remaining old element unconditionally; new elements are created only for names/addresses not matched to an old element; (b) the replacement container is stored into the published field on every path to a success return, under the lock; (c) release chain census: BfeBackend.Close <- BfeBackend.Release <- BackendRR.Release <- {BalanceRR.Update, BalanceRR.Release} <- SubCluster.release <- {BalanceGslb.Reload, BalanceGslb.Release} <- BalTableReload, no other callers; (d) old and new backends are matched by the same addr:port key format on both sides. Not covered: histories (duplicate addresses in one config and what later reloads do with them), the error path of BalanceGslb.Reload after some sub-clusters were released (input rejected earlier by GslbConfLoad; noted).",
			RuleText:    "obligations = per reload function: each old-element load with its keep and release sites, the publish store, the creation guard; each caller in the release chain; the two key formatters",
		},
		Run: runC09,
		Mutants: []Mutant{
			{Name: "update-release-and-keep", File: "bfe_balance/bal_slb/bal_rr.go", Old: "			backendRR.UpdateWeight(*bkConf.Weight)\n			backendsNew = append(backendsNew, backendRR)\n			delete(confMap, backendKey)\n		} else {", New: "			backendRR.UpdateWeight(*bkConf.Weight)\n			backendsNew = append(backendsNew, backendRR)\n			delete(confMap, backendKey)\n			if *bkConf.Weight == 0 {\n				backendRR.Release()\n			}\n		} else {", Expect: "partition"},
			{Name: "update-drop-without-release", File: "bfe_balance/bal_slb/bal_rr.go", Old: "		} else {\n			// tell healthcheck to stop\n			backendRR.Release()\n		}", New: "		} else if ok {\n			// tell healthcheck to stop\n			backendRR.Release()\n		}", Expect: "partition"},
			{Name: "update-survivor-readded", File: "bfe_balance/bal_slb/bal_rr.go", Old: "			backendsNew = append(backendsNew, backendRR)\n			delete(confMap, backendKey)\n", New: "			backendsNew = append(backendsNew, backendRR)\n", Expect: "kept-removed-from-pending"},
			{Name: "reload-release-kept-zero-weight", File: "bfe_balance/bal_gslb/bal_gslb.go", Old: "			// add sub cluster to subListNew\n			subListNew = append(subListNew, sub)\n		} else {", New: "			// add sub cluster to subListNew\n			subListNew = append(subListNew, sub)\n			if weight < 0 {\n				sub.release()\n			}\n		} else {", Expect: "partition"},
			{Name: "reload-recreates-existing", File: "bfe_balance/bal_gslb/bal_gslb.go", Old: "		// record in the map of subExist\n		subExist[sub.Name] = true\n", New: "		// record in the map of subExist\n		if ok {\n			subExist[sub.Name] = weight > 0\n		}\n", Expect: "create-guard"},
			{Name: "table-kept-not-deleted", File: "bfe_balance/bal_table.go", Old: "		} else {\n			delete(t.balTable, clusterName)\n		}", New: "		}", Expect: "kept-removed-from-old"},
			{Name: "table-release-conditional", File: "bfe_balance/bal_table.go", Old: "	for _, remainder := range t.balTable {\n		remainder.Release()\n	}", New: "	for name, remainder := range t.balTable {\n		if _, ok := (*backendConfs.Config)[name]; !ok {\n			remainder.Release()\n		}\n	}", Expect: "release-pass"},
			{Name: "standby-subcluster-skipped", File: "bfe_balance/bal_gslb/bal_gslb.go", Old: "	for _, subCluster := range bal.subClusters {\n		if backend, ok := clusterBackend[subCluster.Name]; ok {\n			subCluster.update(backend)", New: "	for _, subCluster := range bal.subClusters {\n		if subCluster.weight <= 0 {\n			continue\n		}\n		if backend, ok := clusterBackend[subCluster.Name]; ok {\n			subCluster.update(backend)", Expect: "update-all"},
			{Name: "extra-release-caller", File: "bfe_balance/bal_gslb/bal_gslb.go", Old: "func (bal *BalanceGslb) BackendReload(clusterBackend cluster_table_conf.ClusterBackend) error {\n	bal.lock.Lock()\n\n	for _, subCluster := range bal.subClusters {\n		if backend, ok := clusterBackend[subCluster.Name]; ok {\n			subCluster.update(backend)\n		}", New: "func (bal *BalanceGslb) BackendReload(clusterBackend cluster_table_conf.ClusterBackend) error {\n	bal.lock.Lock()\n\n	for _, subCluster := range bal.subClusters {\n		if backend, ok := clusterBackend[subCluster.Name]; ok {\n			subCluster.update(backend)\n		} else {\n			subCluster.release()\n		}", Expect: "release-chain"},
		},
	})
}

// appendedElems lists the values appended by a call of the append builtin.
func appendedElems(call *ssa.Call) []ssa.Value {
	b, ok := call.Call.Value.(*ssa.Builtin)
	if !ok || b.Name() != "append" || len(call.Call.Args) != 2 {
		return nil
	}
	sl, ok := call.Call.Args[1].(*ssa.Slice)
	if !ok {
		return nil
	}
	al, ok := sl.X.(*ssa.Alloc)
	if !ok {
		return nil
	}
	var out []ssa.Value
	for _, r := range *al.Referrers() {
		if ia, ok := r.(*ssa.IndexAddr); ok {
			for _, rr := range *ia.Referrers() {
				if st, ok := rr.(*ssa.Store); ok && st.Addr == ia {
					out = append(out, st.Val)
				}
			}
		}
	}
	return out
}

// partition checks keep-xor-release for the element values elems of fn.
func partition(c *core.Ctx, fn *ssa.Function, name string, elems []ssa.Value, keep, release func(in ssa.Instruction, e ssa.Value) bool) {
	if len(elems) == 0 {
		c.Check("partition", name+":elements", fn.Pos(), false, "no load of an element of the published container found; the reload no longer iterates the old elements in a form the rule can follow")
		return
	}
	loops := core.Loops(fn)
	for i, e := range elems {
		ei, _ := e.(ssa.Instruction)
		if ei == nil {
			continue
		}
		var hdr *ssa.BasicBlock
		for _, l := range loops {
			if l.Body[ei.Block()] {
				if hdr == nil || hdr.Dominates(l.Header) {
					hdr = l.Header
				}
			}
		}
		boundary := func(x ssa.Instruction) bool {
			if core.IsReturn(x) {
				return true
			}
			return hdr != nil && x.Block() == hdr && x == hdr.Instrs[0]
		}
		var keeps, rels []ssa.Instruction
		for _, in := range allInstrs(fn) {
			if keep(in, e) {
				keeps = append(keeps, in)
			}
			if release(in, e) {
				rels = append(rels, in)
			}
		}
		key := fmt.Sprintf("%s:elem#%d", name, i)
		if len(keeps) == 0 || len(rels) == 0 {
			c.Check("partition", key, ei.Pos(), false, fmt.Sprintf("old element %s has %d keep site(s) and %d release site(s); both a carry-over and a release branch are required", core.Render(e), len(keeps), len(rels)))
			continue
		}
		disjoint := true
		for _, k := range keeps {
			for _, r := range rels {
				if core.ReachAvoiding(fn, k, boundary, func(x ssa.Instruction) bool { return x == r }) != nil ||
					core.ReachAvoiding(fn, r, boundary, func(x ssa.Instruction) bool { return x == k }) != nil {
					disjoint = false
				}
			}
		}
		isKR := func(x ssa.Instruction) bool {
			for _, k := range keeps {
				if x == k {
					return true
				}
			}
			for _, r := range rels {
				if x == r {
					return true
				}
			}
			return false
		}
		dropped := core.ReachAvoiding(fn, ei, isKR, boundary)
		c.Check("partition", key, ei.Pos(), disjoint && dropped == nil,
			fmt.Sprintf("old element %s: kept and released on one path = %v (a released object stays in service / is released again later); neither kept nor released on some path = %v (its health checker is never stopped)", core.Render(e), !disjoint, dropped != nil))
	}
}

func runC09(c *core.Ctx) {
	const slb, gslb, tbl, bk = "bfe_balance/bal_slb", "bfe_balance/bal_gslb", "bfe_balance", "bfe_balance/backend"
	// ---- BalanceRR.Update -----------------------------------------------------------------------
	if fn := c.P.Func(slb, "BalanceRR.Update"); fn == nil {
		c.Missing(slb + ".BalanceRR.Update")
	} else {
		c.Analysed(core.FuncKey(fn))
		var elems []ssa.Value
		for _, in := range allInstrs(fn) {
			if u, ok := in.(*ssa.UnOp); ok && u.Op == token.MUL {
				if ia, ok := u.X.(*ssa.IndexAddr); ok && core.Render(ia.X) == "brr.backends" {
					elems = append(elems, u)
				}
			}
		}
		var keepCalls []*ssa.Call
		partition(c, fn, "BalanceRR.Update", elems,
			func(in ssa.Instruction, e ssa.Value) bool {
				call, ok := in.(*ssa.Call)
				if !ok {
					return false
				}
				for _, a := range appendedElems(call) {
					if a == e {
						keepCalls = append(keepCalls, call)
						return true
					}
				}
				return false
			},
			func(in ssa.Instruction, e ssa.Value) bool {
				ci, ok := in.(ssa.CallInstruction)
				return ok && core.CallIs(ci.Common(), slb+".BackendRR.Release") && ci.Common().Args[0] == e
			})
		// kept element removed from the pending-config map, matched on address and port
		seen := map[*ssa.Call]bool{}
		for _, k := range keepCalls {
			if seen[k] {
				continue
			}
			seen[k] = true
			del := false
			for _, in := range allInstrs(fn) {
				if ci, ok := in.(*ssa.Call); ok {
					if b, isB := ci.Call.Value.(*ssa.Builtin); isB && b.Name() == "delete" && (ci.Block() == k.Block() || k.Block().Dominates(ci.Block()) || ci.Block().Dominates(k.Block())) {
						// same guards
						if strings.Join(core.GuardStrs(ci.Block()), "&") == strings.Join(core.GuardStrs(k.Block()), "&") {
							del = true
						}
					}
				}
			}
			c.Check("kept-removed-from-pending", "BalanceRR.Update", k.Pos(), del, "a surviving backend is carried over but its entry stays in the pending-config map: it would be created a second time as a new backend")
			match := core.HasGuard(k.Block(), func(g core.Guard) bool { return g.Pol && strings.Contains(g.Str, "BackendRR.MatchAddrPort(") })
			found := core.HasGuard(k.Block(), func(g core.Guard) bool { return g.Pol && strings.HasSuffix(g.Str, "#1") && strings.Contains(g.Str, "[") })
			c.Check("keep-guard", "BalanceRR.Update", k.Pos(), match && found, "a backend is carried over without having been found in the new config and matched on address and port")
		}
		// new elements are fresh objects
		fresh := 0
		for _, in := range allInstrs(fn) {
			call, ok := in.(*ssa.Call)
			if !ok {
				continue
			}
			for _, a := range appendedElems(call) {
				if cl, isCall := a.(*ssa.Call); isCall && core.CallIs(&cl.Call, slb+".NewBackendRR") {
					fresh++
				}
			}
		}
		c.Check("create-guard", "BalanceRR.Update:new", fn.Pos(), fresh == 1, fmt.Sprintf("expected one site appending a freshly created BackendRR for unmatched config entries, found %d", fresh))
		checkPublish(c, fn, "BalanceRR.Update", "brr.backends", "brr.Mutex")
	}
	// ---- BalanceGslb.Reload --------------------------------------------------------------------------
	if fn := c.P.Func(gslb, "BalanceGslb.Reload"); fn == nil {
		c.Missing(gslb + ".BalanceGslb.Reload")
	} else {
		c.Analysed(core.FuncKey(fn))
		var elems []ssa.Value
		for _, in := range allInstrs(fn) {
			if u, ok := in.(*ssa.UnOp); ok && u.Op == token.MUL {
				if ia, ok := u.X.(*ssa.IndexAddr); ok && core.Render(ia.X) == "bal.subClusters" {
					elems = append(elems, u)
				}
			}
		}
		partition(c, fn, "BalanceGslb.Reload", elems,
			func(in ssa.Instruction, e ssa.Value) bool {
				call, ok := in.(*ssa.Call)
				if !ok {
					return false
				}
				for _, a := range appendedElems(call) {
					if a == e {
						return true
					}
				}
				return false
			},
			func(in ssa.Instruction, e ssa.Value) bool {
				ci, ok := in.(ssa.CallInstruction)
				return ok && core.CallIs(ci.Common(), gslb+".SubCluster.release") && ci.Common().Args[0] == e
			})
		// every old name is recorded as existing; creation only for names not recorded
		for i, e := range elems {
			ei := e.(ssa.Instruction)
			var hdr *ssa.BasicBlock
			for _, l := range core.Loops(fn) {
				if l.Body[ei.Block()] {
					hdr = l.Header
				}
			}
			bad := core.ReachAvoiding(fn, ei, func(x ssa.Instruction) bool {
				mu, ok := x.(*ssa.MapUpdate)
				return ok && fieldLoadOf(mu.Key, "Name") == e && core.Render(mu.Value) == "true"
			}, func(x ssa.Instruction) bool {
				return core.IsReturn(x) || (hdr != nil && x == hdr.Instrs[0])
			})
			c.Check("create-guard", fmt.Sprintf("BalanceGslb.Reload:record#%d", i), ei.Pos(), bad == nil, "an existing sub-cluster is not unconditionally recorded as existing; it would be created again as a new sub-cluster (losing its backends' state)")
		}
		nNew := 0
		for _, ci := range core.Calls(fn, gslb+".newSubCluster") {
			nNew++
			ok := core.HasGuard(ci.(ssa.Instruction).Block(), func(g core.Guard) bool {
				return !g.Pol && strings.HasSuffix(g.Str, "#1") && strings.Contains(g.Str, "[")
			})
			c.Check("create-guard", fmt.Sprintf("BalanceGslb.Reload:new#%d", nNew), ci.Pos(), ok, "a new sub-cluster is created without the name having been found absent from the existing ones")
		}
		c.Min("create-guard", 3)
		checkPublish(c, fn, "BalanceGslb.Reload", "bal.subClusters", "bal.lock")
	}
	// ---- BalTableReload -------------------------------------------------------------------------------------
	if fn := c.P.Func(tbl, "BalTable.BalTableReload"); fn == nil {
		c.Missing(tbl + ".BalTable.BalTableReload")
	} else {
		c.Analysed(core.FuncKey(fn))
		// old elements: lookups t.balTable[name] (comma-ok)
		n := 0
		for _, in := range allInstrs(fn) {
			lk, ok := in.(*ssa.Lookup)
			if !ok || core.Render(lk.X) != "t.balTable" || !lk.CommaOk {
				continue
			}
			n++
			// the value flows into the new map on the found path; on that path delete(t.balTable, sameKey) must happen
			okDel := false
			for _, x := range allInstrs(fn) {
				call, isCall := x.(*ssa.Call)
				if !isCall {
					continue
				}
				if b, isB := call.Call.Value.(*ssa.Builtin); isB && b.Name() == "delete" && core.Render(call.Call.Args[0]) == "t.balTable" && core.Render(call.Call.Args[1]) == core.Render(lk.Index) {
					// executed exactly when found
					if core.HasGuard(call.Block(), func(g core.Guard) bool {
						ex, isEx := g.Cond.(*ssa.Extract)
						return isEx && ex.Tuple == ssa.Value(lk) && ex.Index == 1 && g.Pol
					}) {
						okDel = true
					}
				}
			}
			c.Check("kept-removed-from-old", fmt.Sprintf("BalTableReload:lookup#%d", n), in.Pos(), okDel, "a balancer found in the old table is carried into the new table but not deleted from the old one before the release pass: it is released while still in service (and again on a later reload)")
			// carried into the new map under the same key
			carried := false
			for _, x := range allInstrs(fn) {
				if mu, isMU := x.(*ssa.MapUpdate); isMU && core.Render(mu.Key) == core.Render(lk.Index) && core.Render(mu.Map) != "t.balTable" {
					carried = true
				}
			}
			c.Check("partition", fmt.Sprintf("BalTableReload:carry#%d", n), in.Pos(), carried, "the balancer looked up in the old table is not stored into the replacement table")
		}
		if n == 0 {
			c.Check("kept-removed-from-old", "BalTableReload:lookup", fn.Pos(), false, "no lookup of the old table found")
		}
		// release pass: range over t.balTable, Release on every element, unconditionally, after the carry loop and before publish
		nRel := 0
		for _, ci := range core.Calls(fn, gslb+".BalanceGslb.Release") {
			nRel++
			in := ci.(ssa.Instruction)
			recv := core.Render(ci.Common().Args[0])
			fromOld := strings.Contains(recv, "next(range(t.balTable))")
			var loopGuardsOnly = true
			if len(core.SkipFilters(in.Block())) > 0 {
				loopGuardsOnly = false
			}
			c.Check("release-pass", fmt.Sprintf("BalTableReload:release#%d", nRel), in.Pos(), fromOld && loopGuardsOnly,
				"the release pass must release every balancer remaining in the old table unconditionally (receiver: "+recv+"; guards: "+strings.Join(core.GuardStrs(in.Block()), " && ")+")")
			// publish after release
			pub := false
			for _, x := range allInstrs(fn) {
				if st, ok := x.(*ssa.Store); ok && core.Render(st.Addr) == "t.balTable" && core.ReachAvoiding(fn, in, nil, func(y ssa.Instruction) bool { return y == x }) != nil {
					pub = true
				}
			}
			c.Check("release-pass", fmt.Sprintf("BalTableReload:then-publish#%d", nRel), in.Pos(), pub, "the replacement table must be published after the release pass")
		}
		if nRel != 1 {
			c.Check("release-pass", "BalTableReload:sites", fn.Pos(), false, fmt.Sprintf("expected exactly one release site, found %d", nRel))
		}
		checkPublish(c, fn, "BalTableReload", "t.balTable", "t.lock")
	}
	// ---- backend lists of every sub-cluster follow the cluster table -----------------------------
	// BackendReload / BackendInit hand the new backend list to every sub-cluster named in the
	// cluster table: the update/init call is guarded only by the loop and the table lookup hit,
	// otherwise removed backends of a skipped sub-cluster (e.g. a weight-0 standby used for cross
	// retry) are neither released nor replaced.
	for _, spec := range []struct{ fn, callee string }{{"BalanceGslb.BackendReload", gslb + ".SubCluster.update"}, {"BalanceGslb.BackendInit", gslb + ".SubCluster.init"}} {
		fn := c.P.Func(gslb, spec.fn)
		if fn == nil {
			c.Missing(gslb + "." + spec.fn)
			continue
		}
		c.Analysed(core.FuncKey(fn))
		calls := core.Calls(fn, spec.callee)
		if len(calls) != 1 {
			c.Check("update-all", spec.fn, fn.Pos(), false, fmt.Sprintf("expected one call of %s, found %d", spec.callee, len(calls)))
			continue
		}
		var extra []string
		for _, g := range core.SkipFilters(calls[0].(ssa.Instruction).Block()) {
			if g.Pol && strings.HasSuffix(g.Str, "#1") && strings.Contains(g.Str, "clusterBackend[") {
				continue
			}
			extra = append(extra, g.Str)
		}
		c.Check("update-all", spec.fn, calls[0].Pos(), len(extra) == 0, spec.fn+" skips sub-clusters under "+strings.Join(extra, " && ")+": their removed backends are never released and new ones never installed")
	}
	// ---- release chain census ------------------------------------------------------------------------------------
	chain := map[string][]string{
		bk + ".BfeBackend.Close":      {bk + ".BfeBackend.Release"},
		bk + ".BfeBackend.Release":    {slb + ".BackendRR.Release"},
		slb + ".BackendRR.Release":    {slb + ".BalanceRR.Update", slb + ".BalanceRR.Release"},
		slb + ".BalanceRR.Release":    {gslb + ".SubCluster.release"},
		gslb + ".SubCluster.release":  {gslb + ".BalanceGslb.Reload", gslb + ".BalanceGslb.Release"},
		gslb + ".BalanceGslb.Release": {tbl + ".BalTable.BalTableReload"},
	}
	var keys []string
	for k := range chain {
		keys = append(keys, k)
	}
	sort.Strings(keys)
	all := c.P.SrcFuncs("")
	for _, callee := range keys {
		allowed := map[string]bool{}
		for _, a := range chain[callee] {
			allowed[a] = true
		}
		n := 0
		for _, f := range all {
			if len(core.Calls(f, callee)) == 0 {
				continue
			}
			n++
			c.Check("release-chain", callee+"<-"+core.FuncKey(f), f.Pos(), allowed[core.FuncKey(f)], core.FuncKey(f)+" calls "+callee+"; only "+strings.Join(chain[callee], ", ")+" may release (a release outside the reload partition closes a health-check channel that a later reload closes again)")
		}
		if n == 0 {
			c.Check("release-chain", callee+"<-none", token.NoPos, false, callee+" is never called: removed targets are no longer released")
		}
	}
	c.Min("release-chain", 8)
	// BalanceRR.Release / BalanceGslb.Release release every element
	for _, spec := range []struct{ pkg, fn, callee string }{{slb, "BalanceRR.Release", slb + ".BackendRR.Release"}, {gslb, "BalanceGslb.Release", gslb + ".SubCluster.release"}} {
		fn := c.P.Func(spec.pkg, spec.fn)
		if fn == nil {
			c.Missing(spec.pkg + "." + spec.fn)
			continue
		}
		ok := false
		for _, ci := range core.Calls(fn, spec.callee) {
			loopOnly := true
			if len(core.SkipFilters(ci.(ssa.Instruction).Block())) > 0 {
				loopOnly = false
			}
			ok = loopOnly
		}
		c.Check("release-all", spec.fn, fn.Pos(), ok, spec.fn+" must release every element of its list unconditionally")
	}
	// ---- key agreement ---------------------------------------------------------------------------------------------------
	fmtOf := func(pkg, fname string) (string, string) {
		fn := c.P.Func(pkg, fname)
		if fn == nil {
			c.Missing(pkg + "." + fname)
			return "", ""
		}
		for _, ci := range core.Calls(fn, "fmt.Sprintf") {
			s, _ := core.ConstString(ci.Common().Args[0])
			var args []string
			if sl, ok := ci.Common().Args[1].(*ssa.Slice); ok {
				if al, ok := sl.X.(*ssa.Alloc); ok {
					type kv struct {
						i int
						s string
					}
					var kvs []kv
					for _, r := range *al.Referrers() {
						if ia, ok := r.(*ssa.IndexAddr); ok {
							for _, rr := range *ia.Referrers() {
								if st, ok := rr.(*ssa.Store); ok && st.Addr == ia {
									idx := 0
									if k, isK := ia.Index.(*ssa.Const); isK {
										fmt.Sscan(k.Value.ExactString(), &idx)
									}
									r := core.Render(st.Val)
									kvs = append(kvs, kv{idx, r[strings.LastIndex(r, ".")+1:]})
								}
							}
						}
					}
					sort.Slice(kvs, func(i, j int) bool { return kvs[i].i < kvs[j].i })
					for _, k := range kvs {
						args = append(args, k.s)
					}
				}
			}
			return s, strings.Join(args, ",")
		}
		return "", ""
	}
	f1, a1 := fmtOf("bfe_config/bfe_cluster_conf/cluster_table_conf", "BackendConf.AddrInfo")
	f2, a2 := fmtOf(bk, "BfeBackend.Init")
	c.Check("key-agreement", "AddrInfo", token.NoPos, f1 != "" && f1 == f2 && a1 == a2 && a1 == "Addr,Port",
		fmt.Sprintf("config side keys backends by Sprintf(%q, %s), balancer side by Sprintf(%q, %s); they must be the same function of (Addr, Port) or survivors are not recognised", f1, a1, f2, a2))
	if cm := c.P.Func(slb, "confMapMake"); cm != nil {
		ok := false
		core.Instrs(cm, func(in ssa.Instruction) {
			if mu, isMU := in.(*ssa.MapUpdate); isMU && strings.Contains(core.Render(mu.Key), "BackendConf.AddrInfo(") {
				ok = true
			}
		})
		c.Check("key-agreement", "confMapMake", cm.Pos(), ok, "the pending-config map must be keyed by BackendConf.AddrInfo()")
	} else {
		c.Missing(slb + ".confMapMake")
	}
	if up := c.P.Func(slb, "BalanceRR.Update"); up != nil {
		ok := false
		core.Instrs(up, func(in ssa.Instruction) {
			if lk, isLk := in.(*ssa.Lookup); isLk && strings.Contains(core.Render(lk.Index), "BfeBackend.GetAddrInfo(") {
				ok = true
			}
		})
		c.Check("key-agreement", "BalanceRR.Update:lookup", up.Pos(), ok, "old backends must be looked up in the pending-config map by BfeBackend.GetAddrInfo()")
	}
	_ = types.Universe
}

// checkPublish: the replacement container is stored into field on every path
// from entry to a success return, with the lock held.
func checkPublish(c *core.Ctx, fn *ssa.Function, name, field, lock string) {
	ls := core.ComputeLockSets(fn)
	var stores []ssa.Instruction
	for _, in := range allInstrs(fn) {
		if st, ok := in.(*ssa.Store); ok && core.Render(st.Addr) == field {
			stores = append(stores, in)
		}
	}
	if len(stores) == 0 {
		c.Check("publish", name, fn.Pos(), false, "the replacement container is never stored into "+field)
		return
	}
	isStore := func(x ssa.Instruction) bool {
		for _, s := range stores {
			if x == s {
				return true
			}
		}
		return false
	}
	bad := core.ReachAvoiding(fn, nil, isStore, func(x ssa.Instruction) bool {
		r, ok := x.(*ssa.Return)
		if !ok {
			return false
		}
		rv := core.RetVals(r)
		return len(rv) == 0 || isNilConst(rv[len(rv)-1]) || !errKnownNonNil(rv[len(rv)-1], r.Block())
	})
	locked := true
	for _, s := range stores {
		if !ls.Holds(s, lock, "W") {
			locked = false
		}
	}
	c.Check("publish", name, stores[0].Pos(), bad == nil && locked, fmt.Sprintf("%s must be assigned the replacement container on every path to a success return (missing on some path: %v) while holding %s (held: %v)", field, bad != nil, lock, locked))
}
