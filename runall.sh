#!/bin/bash
# runs every registered check (quick tier by default) and prints one line each
tier=${1:-quick}
for id in $(bin/bfecheck -list | awk '{print $1}'); do
  out=$(bin/bfecheck -prop $id -tier $tier 2>&1); rc=$?
  echo "$id rc=$rc $(echo "$out" | grep '^property=' | cut -c1-120)"
  [ $rc -ne 0 ] && echo "$out" | grep -E "^(FAILED|INFRA|SELFTEST-FAIL)" | cut -c1-260
done
