#!/bin/bash
# usage: tools/regress.sh <verif-dir> <prop> [tag]
# Regression of one property's check against its recorded seeds (must be reported: exit 1) and its
# negative controls (behaviour-preserving refactorings: must stay silent: exit 0), each applied to a
# scratch worktree of /repo. Prints one line per case and a summary; exit 0 iff everything is as expected.
set -u
export GOFLAGS="-mod=mod -trimpath" GOPROXY=off GOSUMDB=off GOTOOLCHAIN=local GOWORK=off
vd=$1; id=$2; tag=${3:-$id}
wt=/tmp/rg_$tag; sv=/tmp/rg_${tag}_v
bad=0
run() { # <patch> -> rc
  git -C /repo worktree remove --force $wt >/dev/null 2>&1; rm -rf $wt
  for t in 1 2 3 4 5; do git -C /repo worktree add -q --detach $wt HEAD 2>/dev/null && break; sleep 2; done
  [ -d $wt ] || { echo "cannot create worktree"; return 9; }
  (cd $wt && (git apply $1 2>/dev/null || git apply -3 $1 >/dev/null 2>&1)) || { git -C /repo worktree remove --force $wt; return 8; }
  rm -rf $sv; mkdir -p $sv/evidence; cp $vd/known_findings.json $sv/
  out=$($vd/bin/bfecheck -repo $wt -verif $sv -prop $id -tier quick 2>&1); rc=$?
  echo "$out" | grep -E "^(FAILED|INFRA)" | cut -c1-330 | head -${SHOW:-6}
  git -C /repo worktree remove --force $wt >/dev/null 2>&1; rm -rf $sv
  return $rc
}
for d in $vd/seeded/$id-?; do
  [ -f $d/patch.diff ] || continue
  exp=$(python3 -c "import json;v=json.load(open('$d/meta.json')).get('verified',{});print(1 if any(x.endswith('rc=1') for x in v.get('checks',[])) else 0)")
  run $d/patch.diff; rc=$?
  if [ $rc = 1 ]; then echo "SEED $(basename $d): detected"; elif [ $exp = 1 ]; then echo "SEED $(basename $d): rc=$rc  *** REGRESSION (was detected before)"; bad=1; else echo "SEED $(basename $d): rc=$rc (was not detected before either)"; fi
done
for d in $vd/neutral/$id-N?; do
  [ -f $d/patch.diff ] || continue
  run $d/patch.diff; rc=$?
  if [ $rc = 0 ]; then echo "NEUTRAL $(basename $d): silent"; else echo "NEUTRAL $(basename $d): rc=$rc  *** FALSE ALARM"; bad=1; fi
done
exit $bad
