#!/usr/bin/env python3
"""Regenerates the machine-written parts of DESIGN.md (between BEGIN/END markers):
   - the findings table from known_findings.json
   - the as-built table from MANIFEST.json + evidence/*.json
   - the seeded-changes table from seeded/*/meta.json"""
import json,glob,os,re,subprocess
V='/verif'
def findings():
    f=json.load(open(V+'/known_findings.json'))
    out=['| property | status | commit | finding (rule instance) |','|---|---|---|---|']
    seen=set()
    for x in sorted(f,key=lambda x:(x['property'],x['status'],x['id'])):
        what=x['what']
        what=re.sub(r'^fixed: property=\S+ \S+ ','',what)
        key=(x['property'],x.get('commit'),what[:60])
        if key in seen: continue
        seen.add(key)
        out.append('| %s | %s | %s | `%s` — %s |'%(x['property'],x['status'],x.get('commit','–'),x['id'].replace('|','¦'),what.replace('|','¦')[:420]))
    return '\n'.join(out)
def asbuilt():
    m=json.load(open(V+'/MANIFEST.json'))
    out=['| property | technique (deciding method) | obligations on the current tree | known findings hit |','|---|---|---|---|']
    for c in m['checks']:
        ev=V+'/evidence/%s.json'%c['property_id']
        ob=kn='?'
        if os.path.exists(ev):
            e=json.load(open(ev)); ob=e['coverage'].get('obligations'); kn=e['coverage'].get('known_findings_hit')
        out.append('| %s | %s | %s | %s |'%(c['property_id'],c.get('technique','').replace('|','¦'),ob,kn))
    for n in m.get('not_applicable',[]):
        out.append('| %s | not applicable: %s | – | – |'%(n['property_id'],n['reason'].replace('|','¦')))
    return '\n'.join(out)
def seeds():
    out=['| seed | what the change does (reviewer\'s summary) | needs to manifest | demo fails with / passes without | existing tests | detected by (first failed rule instances) |','|---|---|---|---|---|---|']
    n=d=0
    for dd in sorted(glob.glob(V+'/seeded/C*-[A-Z]')):
        m=json.load(open(dd+'/meta.json'))
        v=m.get('verified',{})
        name=os.path.basename(dd)
        det=[x for x in v.get('checks',[]) if x.endswith('rc=1')]
        n+=1; d+=1 if det else 0
        rules=v.get('failed_rules',[])
        out.append('| %s | %s | %s | %s | %s | %s |'%(name,(m.get('summary') or '')[:300].replace('|','¦').replace('\n',' '),(m.get('needs_to_manifest') or '')[:200].replace('|','¦').replace('\n',' '),
            'yes' if (v.get('demo_patched_rc') not in (0,None) and v.get('demo_clean_rc')==0) else 'NO',
            'pass' if v.get('existing_tests_rc')==0 else 'fail/flaky',
            ('**'+', '.join(x.split(':')[0] for x in det)+'**: '+'; '.join('`'+r.replace('|','¦')[:90]+'`' for r in rules[:3])) if det else 'not detected'))
    out.append('')
    out.append('%d seeded changes kept, %d detected by the check of their property (or a named sibling check).'%(n,d))
    return '\n'.join(out)
def neutral():
    out=['| control | kind of edit | what was restructured | check verdict | alarms (rule instances), if any |','|---|---|---|---|---|']
    n=ok=0
    for dd in sorted(glob.glob(V+'/neutral/C*-N?')):
        if not os.path.exists(dd+'/meta.json'): continue
        m=json.load(open(dd+'/meta.json'))
        v=m.get('verified')
        if not v: continue
        n+=1
        silent=all(x.endswith('rc=0') for x in v.get('checks',[])) and v.get('checks')
        ok+=1 if silent else 0
        out.append('| %s | %s | %s | %s | %s |'%(os.path.basename(dd),(m.get('kind') or '')[:60].replace('|','¦'),(m.get('summary') or '')[:260].replace('|','¦').replace('\n',' '),'silent' if silent else '**FALSE ALARM**','; '.join('`'+a.replace('|','¦')[:80]+'`' for a in v.get('alarms',[])[:3])))
    out.append('')
    out.append('%d negative controls run, %d silent.'%(n,ok))
    return '\n'.join(out)
def selftest():
    f=V+'/selftest_status.json'
    if not os.path.exists(f): return '(no strict run recorded)'
    d=json.load(open(f))
    m=json.load(open(V+'/MANIFEST.json'))
    out=['| property | overlay mutants | verdicts of the last complete strict run | mismatches |','|---|---|---|---|']
    for c in m['checks']:
        i=c['property_id']; x=d.get(i)
        if x: out.append('| %s | %d | %s | %s |'%(i,x['mutants'],x['verdicts'],'; '.join(y.replace('|','¦') for y in x['mismatches']) or 'none'))
        else: out.append('| %s | – | strict run not completed in the final session (earlier strict runs of this property passed; mutants added by the robustness pass were run by their authors, see section 12) | – |'%i)
    return '\n'.join(out)
s=open(V+'/DESIGN.md').read()
for tag,fn in (('SELFTEST',selftest),('FINDINGS',findings),('ASBUILT',asbuilt),('SEEDS',seeds),('NEUTRAL',neutral)):
    b='<!-- BEGIN %s -->'%tag; e='<!-- END %s -->'%tag
    if b in s:
        s=s[:s.index(b)+len(b)]+'\n'+fn()+'\n'+s[s.index(e):]
open(V+'/DESIGN.md','w').write(s)
